#!/bin/bash
# verify_seed.sh <agent_out_dir> <seed_name>
# Confirms in a scratch worktree (reused path, so builds are incremental) that the seeded change
#  (1) applies, compiles and passes the existing test suite (only the 4 known flate2 failures),
#  (2) makes the demonstration fail, and (3) the demonstration passes without it.
# On success copies patch.diff, demo files and meta.json to /verif/seeded/<seed_name>/.
out="$1"; name="$2"
wt=/tmp/sv/wt
export CARGO_NET_OFFLINE=true
mkdir -p /tmp/sv
exec 9>/tmp/sv/lock; flock 9
if [ ! -d "$wt" ]; then git -C /repo worktree add -q --detach "$wt" HEAD || exit 3; fi
cd "$wt" && git checkout -q --detach "$(git -C /repo rev-parse HEAD)" && git checkout -- . && git clean -fdq -e target
log=/tmp/sv/$name.log; : > $log
git apply "$out/patch.diff" || { echo "patch does not apply" >> $log; exit 4; }
cargo test --workspace --no-fail-fast --offline > /tmp/sv/$name.tests.log 2>&1
fails=$(grep -E "^test .* FAILED$" /tmp/sv/$name.tests.log | grep -v "cmsg_update_account_data0" | wc -l)
nfail4=$(grep -E "^test .* FAILED$" /tmp/sv/$name.tests.log | grep -c "cmsg_update_account_data0")
compiled=$(grep -c "error: could not compile" /tmp/sv/$name.tests.log)
echo "suite: other_failures=$fails known4=$nfail4 compile_errors=$compiled" >> $log
bash "$out/demo.sh" "$wt" > /tmp/sv/$name.demo_with.log 2>&1; rc_with=$?
git apply -R "$out/patch.diff"
bash "$out/demo.sh" "$wt" > /tmp/sv/$name.demo_without.log 2>&1; rc_without=$?
echo "demo: with_change_rc=$rc_with without_change_rc=$rc_without" >> $log
git checkout -- . ; git clean -fdq -e target
if [ "$fails" = "0" ] && [ "$compiled" = "0" ] && [ "$rc_with" != "0" ] && [ "$rc_without" = "0" ]; then
  d=/verif/seeded/$name; mkdir -p $d
  cp "$out/patch.diff" "$out/demo.sh" $d/
  for f in "$out"/*.rs; do [ -f "$f" ] && cp "$f" $d/; done
  python3 - "$out/meta.json" "$d/meta.json" "$log" <<'PY'
import json,sys
try: m=json.load(open(sys.argv[1]))
except Exception: m={}
m['verified_by_me']=open(sys.argv[3]).read().strip().splitlines()
m['verified_cmds']=['git apply patch.diff', 'cargo test --workspace --no-fail-fast --offline (only the 4 known cmsg_update_account_data0 failures)', 'demo.sh with change: non-zero exit', 'demo.sh without change: exit 0']
json.dump(m,open(sys.argv[2],'w'),indent=1)
PY
  echo "VERIFIED $name" >> $log
else
  echo "REJECTED $name" >> $log
fi
cat $log
