#!/bin/bash
# run_all.sh [tier] : every registered check on the current /repo tree, one after the other; summary on stdout
tier=${1:-quick}
cd /verif
git -C /repo diff --quiet || { echo "/repo is dirty: refusing"; exit 9; }
for id in C11 C12 C14 C15 C13 C09 C02 C04 C03 C20 C19 C16 C17 C18 C10 C05 C06 C01 C07; do
  t0=$(date +%s)
  ./check $id --tier $tier > /tmp/runall_${tier}_$id.log 2>&1; rc=$?
  echo "$id rc=$rc $(( $(date +%s) - t0 ))s $(tail -1 /tmp/runall_${tier}_$id.log | cut -c1-120)"
done
