#!/usr/bin/env python3
"""Generates MANIFEST.json from the table below (kept in one place so it stays valid)."""
import json, os
HERE = os.path.dirname(os.path.dirname(os.path.abspath(__file__)))
ALL = ['C%02d' % i for i in range(1, 21)]

CHECKS = {
 'C07': dict(cat='model_checking', engine='gen+mirsym',
   text='Seeded random well-formed wowm programs over the features the corpus uses (vf/randwowm.py) replace single-message files of a scratch copy; the REAL generator is run on it, the emitted Rust is compiled, and the C01 machinery (MIR symbolic execution + z3: read -> write -> size over canonical encodings with all field values symbolic, per covered shape) is run on every new message with the scratch tree as the repository. Programs whose generated code does not compile are reported (classified by the construct the compiler trips over) and removed, the rest is regenerated and checked.',
   note='Per program the claim is C01\'s (same bounds); the set of programs is SAMPLED (10 programs, fixed internal seed 0 in both tiers so that findings are reproducible; thorough uses the thorough bounds of the sub-checks), not exhaustive: a pass says nothing about programs not drawn. self.size, masks and compressed members are not generated. Four generator defects found this way are recorded as known findings (see known_findings.json).',
   technique='real generator on random programs + symbolic execution of the generated code\'s MIR into SMT (z3) per program and shape', ref='DESIGN.md 4/C07'),
 'C16': dict(cat='model_checking', engine='gen+mirsym',
   text='(A, solver) WorldVersion::overlaps/covers and LoginVersion::overlaps/fullfills are executed from the generator\'s MIR with both arguments fully symbolic (variant and all fields); z3 decides for all pairs of versions that overlaps <=> the denoted build sets intersect, covers/fullfills <=> superset (quantified over all builds), symmetry, covers => overlaps. (B, fault injection) each of 17 static rules is violated at several sites of the real corpus (top level, structs used by messages, inside if / optional blocks, tag_all files, paste_versions objects) in a scratch copy and the real generator must stop with that rule\'s exit status; the clean tree must be accepted.',
   note='Only (A) is a solver claim. (B) runs 51 (quick) / ~200 (thorough) mutated trees through the real generator binary; sites are chosen with VERIF_SEED. Rules without an exit status of their own (plain panics) are not injected; the lookup code that uses the relations (has_version_intersections over vectors) is exercised only through (B).',
   technique='symbolic execution of the generator\'s MIR into SMT (z3, quantified set semantics) + fault injection through the real generator', ref='DESIGN.md 4/C16'),
 'C19': dict(cat='model_checking', engine='cfgsat',
   text='The sources of the three libraries are scanned into a configuration model (vf/cfgscan.py): every module, item definition, use tree and path reference with the cfg condition under which it is compiled, plus the feature implications of the manifests (optional dependencies, dep/feature, features wow_world_messages switches on in wow_world_base). z3 decides for ALL feature assignments at once that every resolved reference is compiled only when its target is, and that code naming an optional dependency or a tokio_/astd_ method is compiled only when that is available. A satisfying assignment is a feature set; it is replayed with cargo check on a scratch copy and reported only if that build fails.',
   note='Restricted to the build half of the property and to what the scanner resolves (about 95% of ~66,000 references; the rest is counted, not judged). No macro expansion or type resolution. "Behaves identically in two configurations" is not decided (only cfg attributes inside function bodies are counted: none). cfg(test) is false.',
   technique='SAT/SMT (z3) over a cfg model extracted from the sources: validity of cond(ref) => cond(target) for all feature sets; native cargo check replay', ref='DESIGN.md 4/C19'),
 'C17': dict(cat='model_checking', engine='gen+encode',
   text='The real generator is built and run on a scratch copy of the current tree; the C fragment it emits for the dissectors (parser.txt) is parsed and interpreted symbolically (vf/wsh.py) over the canonical encoding of every Vanilla world message and every login message version, one encoding per covered shape with all field values symbolic. Integers the dissector reads are z3 terms; every if/else-if condition and loop bound must be decided by the shape constraints (solver implication: the dissector branches exactly as the definition), every read must start at a field boundary with the field width and endianness, string/packed-guid/mask helpers must meet a field of their type, and the cursor must equal the body length at the final break. hf_ fields, variables and enumerators referenced must be declared/registered in the sibling fragments.',
   note='The fragment is interpreted, not compiled into Wireshark: the C subset the printer emits is modelled (32-bit unsigned variables, ==, !=, &, ||, <, for/while/switch); the hand-written helper functions are taken to consume one value of their type. Shapes as C01 (counts/lengths <= 2/3, cap 8 quick / 60 thorough per message). Messages with compressed payloads or UpdateMask members are outside (listed as inconclusive in the evidence).',
   technique='run of the real generator + symbolic interpretation of the emitted C fragment over z3-encoded canonical messages', ref='DESIGN.md 4/C17'),
 'C18': dict(cat='translation_validation', engine='gen+encode',
   text='The real generator is built and run on a scratch copy of the current tree. Every wowm text it embeds (sections of the documentation pages linked from SUMMARY.md, doc comments of the generated Rust files) is parsed back with the independent wowm reader and compared with the source object at the file:line it cites: (a) syntax-tree equality (name, kind, opcode, base type, enumerators/values, member order, types, upcasts, array sizes, constants, conditions); (b) z3: per container of a supported version view and covered shape the encoder built from the documented text and the one built from the source produce the same bytes and validity predicate for all field values; (c) body tables: rows == members in order, sizes of fixed-size members == wire sizes; examples: annotated byte groups concatenate to a test vector of the source object, annotations follow definition order; every non-test source object is documented somewhere.',
   note='Only (b) is a solver claim (bounded by the covered shapes, cap 4 quick / 24 thorough; pages in quick, pages + Rust comments in thorough); (a) and (c) are deterministic comparisons. By design of the doc printer containers with nested if statements have no body table and compressed examples show the decompressed payload: counted, not compared. Comments/descriptions/links are outside.',
   technique='run of the real generator + re-parse of embedded wowm; z3 equivalence of the two encoders per container and shape', ref='DESIGN.md 4/C18'),
 'C10': dict(cat='translation_validation', engine='gen+encode',
   text='The real generator is built and run on a scratch copy of the current tree. (a) the emitted intermediate_representation.json is validated against the published JSON Typedef schema (deterministic validator written for this check). (b) a second front end builds the canonical encoder from the IR objects; per container (all login versions, three expansions, structs, messages, update-mask structs) and covered shape z3 decides that the IR-derived encoding (bytes and validity predicate, all field values symbolic) equals the one derived independently from the wowm text, with IR else-if chains matched to wowm branches by solver implication rather than syntax. (c) object inventories per version view (omitted/invented, both directions), kinds, opcodes, definer base types, enumerator names and values, declared member sequences and test vectors are compared as data.',
   note='Level: translation validation of the IR printer against an independent reading of the wowm (vf/wowm.py); (a) and (c) are deterministic comparisons, only (b) is a solver claim, bounded by the covered shapes (cap 6 quick / 40 thorough per container). Comments, display names, file positions, the sizes objects (C09) and the update-mask offset tables are outside the comparison. Containers with compressed arrays / UpdateMask / AddonArray members are compared by declared member sequence only.',
   technique='run of the real generator + z3 equivalence of two encoders (wowm-derived vs IR-derived) per container and shape; JTD validation', ref='DESIGN.md 4/C10'),
 'C13': dict(cat='model_checking', engine='mirsym',
   text='Every generated UpdateMask setter/getter of the three expansions is executed on the MIR with symbolic values against the field table of the documentation (offset, width, packing of bytes/shorts/guids/floats): set writes exactly the documented words and marks exactly those dirty, get inverts set; the shared bookkeeping step (header/dirty masks, BTreeMap model) is executed for one arbitrary step.',
   note='Trusts the MIR interpreter, the BTreeMap API model and the field table parsed from wowm_language/src/spec/update-mask.md; the wire form of whole masks (write_into_vec/read) is covered for bounded block counts only; see DESIGN.md.',
   technique='symbolic execution of rustc MIR into SMT (z3), per accessor, all values at once', ref='DESIGN.md 4/C13'),
 'C20': dict(cat='model_checking', engine='mirsym',
   text='The MIR of geometry::is_within_square, distance_between, distance_2d and is_within_distance is executed with every f32 operation modelled as exact real arithmetic plus an explicit bounded rounding-error term (a sound over-approximation of round-to-nearest f32 without overflow). Per yaw of the trigger tables (all distinct values) and of an evenly spaced set, z3 (linear real arithmetic) decides over all positions, centres and extents that points clearly inside the documented box (2-yard tolerance, 1/64-yard undecided band) are reported inside and points clearly outside are reported outside; the rotation angle is evaluated bit-exactly and its sin/cos come from the native libm; the reference rotates by the yaw itself. Distances: z3 (nonlinear real arithmetic) decides result >= 0 and result^2 within (1 +- 1e-5)^2 of the exact sum of squares.',
   note='A sat answer is only a candidate: it is replayed natively (dev + release) at the nearest f32 inputs and reported only if the exact rational definition disagrees with the native result. Domain +-20000 / extents <= 1000. The 3-D "too small" distance obligation does not finish within the quick budget (reported as inconclusive in the evidence). Map equality and the table lookup of verify_trigger are not covered.',
   technique='symbolic execution of rustc MIR into SMT (z3 real arithmetic with explicit rounding-error terms), per yaw', ref='DESIGN.md 4/C20'),
 'C03': dict(cat='model_checking', engine='mirsym',
   text='The real read_inner of every login and world message is executed symbolically on (i) fully symbolic bodies of sizes its guard accepts and (ii) canonical prefixes followed by symbolic suffixes at field boundaries, with monitors for panics, failed overflow checks, unwrap/expect, unreachable code and allocation requests that can exceed 16 MiB under the path condition (count symbolic). Exploration is concolic with a stated path cap; every monitored path is solved for concrete bytes and replayed through the public readers of the native dev and release builds with a counting allocator.',
   note='Bounded exploration (path cap per query, buffer lengths as stated): the absence of a report is a claim about the explored paths only. zlib payloads (flate2) and UpdateMask members are outside the encoding. Header-level parsing is covered by C02-C. Recorded findings: allocation requests within the wire-size guard but far above the frame size, AddonArray reader panic.',
   technique='symbolic execution of rustc MIR into SMT (z3) with panic/allocation monitors, concolic coverage', ref='DESIGN.md 4/C03'),
 'C05': dict(cat='model_checking', engine='kani+mirsym',
   text='(a) Kani/CBMC on the real wow_srp header ciphers from an ARBITRARY cipher state: decrypt(encrypt(x)) == x, both halves stay in step, untouched bytes stay untouched (Vanilla, TBC; Wrath RC4 keystream involution and data-independence of the state) - one inductive step that covers every session key and every position in a stream. (b) MIRSYM on the plumbing: encrypted writers and decrypting readers/expect helpers of all three expansions with the raw cipher cut to an invertible position-indexed byte transformer; body length, plaintext header and cipher position symbolic: ciphertext = plaintext with exactly the header bytes transformed in order, readers decrypt exactly the header (4 or 5 bytes for Wrath server headers, decided from the decrypted first byte) and consume exactly the announced body.',
   note='(a) halves are built by transmuting arbitrary bytes of their full size (layout asserted by size); slice lengths <= 6. (b) stubs: the raw cipher, size_without_header/write_into_vec of the representative message, read_opcodes/read_body. (a)+(b)+C02 compose by induction over the message sequence. Quick tier runs the Vanilla and TBC cipher harnesses and the plumbing of all three expansions (the Wrath RC4 keystream harnesses take 14 and 38 minutes and run in the thorough tier: 5-byte header length, then every length <= 5).',
   technique='bounded model checking (Kani/CBMC) of the real cipher + symbolic execution of rustc MIR (z3) of the plumbing', ref='DESIGN.md 4/C05'),
 'C06': dict(cat='model_checking', engine='mirsym',
   text='The coroutine state machines rustc generates for the tokio_/astd_ readers of every login message (three separately generated copies per message) are executed from their MIR against a scripted transport (every sequence of Pending / 1-byte / 2-byte / everything deliveries up to the bound, plus byte-at-a-time delivery) and compared, path by path and for all byte values (z3), with the blocking reader on the same symbolic input: canonical encodings, truncations (same UnexpectedEof) and arbitrary bytes (same error kind).',
   note='read_exact futures (tokio ReadExact / ReadU32Le..., async-std ReadExactFuture) are modelled from their documented contract; everything else (async primitive readers, tokio_read_inner/astd_read_inner, expect helpers, Box<dyn Future> dispatch) is the real code. World async header readers are not re-executed (same text as the sync ones of C02-C); write variants share write_into_vec (C01).',
   technique='symbolic execution of rustc MIR coroutines into SMT (z3) under enumerated transport schedules', ref='DESIGN.md 4/C06'),
 'C14': dict(cat='model_checking', engine='mirsym',
   text='For each of the 15 collective login message families and each older protocol version, the hand-written conversion layer is executed through the public protocol-parameterised API on the canonical encodings of that version\'s message with all field values symbolic: z3 decides that to_version_N(read_protocol(B, N)) equals the value version N\'s own codec decodes and that write_protocol(read_protocol(B, N), N) reproduces B.',
   note='Shapes as C01 with a smaller cap; flags restricted to the bits version N declares; version N\'s codec is tied to the wowm by C01.',
   technique='symbolic execution of rustc MIR into SMT (z3), value/byte equivalence per shape', ref='DESIGN.md 4/C14'),
 'C02': dict(cat='model_checking', engine='mirsym',
   text='A: declared size == bytes written for every message and covered shape (MIR of size()/write_into_vec on symbolic values). B: the real default write_unencrypted_{server,client} bodies and header helpers of all three expansions are executed with the body length a symbolic u32 (body summarised as "exactly s bytes"): z3 decides, for every body length the header form can express at once, that writing does not abort and the header equals the specification (2-byte / Wrath 3-byte form, opcode, endianness). C: every sync reader entry (opcode-enum readers and typed expect helpers, 3 expansions x 2 directions) is executed on an abstract stream with symbolic header bytes and a symbolic-length body buffer: consumed bytes == size-field width + size-field value, opcode and body size handed on are the header\'s. A, B and C are the induction step for aligned streams of any length.',
   note='B/C stubs: size_without_header()/write_into_vec of the representative message (SMSG/CMSG_WARDEN_DATA), read_opcodes / read_body, opcode_to_name. Overridden writers of compressed messages, async variants (C06) and encrypted variants (C05) are outside. The u16 overflow of the total frame length for the two largest bodies is a recorded finding.',
   technique='symbolic execution of rustc MIR into SMT (z3) with symbolic-length buffers (all body lengths / header bytes at once)', ref='DESIGN.md 4/C02'),
 'C01': dict(cat='model_checking', engine='mirsym',
   text='For every login and world message (all versions/expansions) and every covered control shape (branch choices, optional present/absent, array counts and string lengths up to the stated bounds, mask patterns) the real read_inner -> write_into_vec -> size functions are executed symbolically on the compiler\'s MIR over the canonical encoding produced by an independent reader of the wowm sources, with every field value a free bit-vector; z3 decides acceptance on every feasible path, byte-for-byte equality of the re-encoding and the declared size. Every message is re-verified on every run.',
   note='Trusts the MIR interpreter and its std models (vf/models.py), the independent wowm reader/encoder (vf/wowm.py, vf/encode.py) and the C15 contract for DateTime. Bounds: counts/lengths <= 2 (quick) / 3 (thorough), shapes per message capped (one-factor + seeded random coverage). Not covered: UpdateMask members (C13), compressed messages/arrays (zlib), AddonArray. Counterexamples are replayed through the public opcode-enum readers/writers of the native dev and release builds.',
   technique='symbolic execution of rustc MIR into SMT (z3), concolic path coverage, per message and shape', ref='DESIGN.md 4/C01'),
 'C04': dict(cat='model_checking', engine='mirsym',
   text='(a) For every enum-typed member of every message the member bytes of a canonical encoding are replaced by a symbolic value of the full wire width outside the declared set; z3 decides that every feasible path of the real read_inner returns the enum error carrying exactly that value. (b) Every constant-sized world message is executed with a symbolic body size != N and with N+-1 byte bodies and must return InvalidSize. (c) The six opcode dispatchers are executed with a symbolic opcode outside the wowm-defined set and must return the opcode error carrying that opcode.',
   note='Same trusted base as C01. Hosts: the first covered shape that can host an undeclared value per member (array elements collapsed to one representative). The typed expect_* helpers are covered by C02.',
   technique='symbolic execution of rustc MIR into SMT (z3): all undeclared wire values / sizes / opcodes at once', ref='DESIGN.md 4/C04'),
 'C09': dict(cat='model_checking', engine='mirsym',
   text='The set of body sizes accepted by the guard compiled into every world decoder is extracted by executing read_inner with a symbolic body_size (path conditions of the InvalidSize exits); z3 decides that it contains the true minimal and maximal encoded length computed over the whole conditional structure of the wowm definition (counts and string lengths in their full type ranges, no unrolling), that a single-size guard equals the only possible length, and that the length of every covered canonical shape is accepted.',
   note='Only the compiled guard is compared: the IR sizes object and the docs are not produced in this snapshot (generator aborts). Arrays with 32-bit counts / endless arrays and SizedCString use the implementation limits as stated assumptions. Login messages have no guard.',
   technique='MIR symbolic execution for the guard set + z3 queries against interval-exact lengths', ref='DESIGN.md 4/C09'),
 'C11': dict(cat='model_checking', engine='mirsym',
   text='Every conversion (from_int and TryFrom<u8..i64,usize>), as_int and variants() of every public enum (world: 3 expansions, login: 6 versions) is executed symbolically on the compiler\'s MIR with the argument a free bit-vector of the full source width; z3 decides agreement with the (name, value) list read independently from the wowm sources. No sampling of values or of definitions.',
   note='Trusts the MIR interpreter (vf/mirsym.py) and its std models, the independent wowm reader (vf/wowm.py), and the rule "variant i <-> enumerator i". Counterexamples are replayed on the native dev and release builds through the public API before being reported.',
   technique='symbolic execution of rustc MIR into SMT (z3 bit-vectors), all integers of each source type at once', ref='DESIGN.md 4/C11'),
 'C12': dict(cat='model_checking', engine='mirsym',
   text='Every method of every generated flag type (new/as_int/empty/is_empty/all, is_/new_/set_/clear_ per enumerator, the six bit operators, every From/TryFrom integer conversion) and every declared constant is executed on the MIR with free bit-vector arguments; z3 decides equality with the set-algebra specification built from the wowm definition.',
   note='Trusts the MIR interpreter and the wowm reader; synthesised message-local flag structs are covered through C01 (their accessors are not yet checked individually). Counterexamples are replayed natively (dev + release).',
   technique='symbolic execution of rustc MIR into SMT (z3 bit-vectors), all raw values at once', ref='DESIGN.md 4/C12'),
 'C15': dict(cat='model_checking', engine='kani',
   text='CBMC decides three assertions (accepted => valid, valid => accepted, accessors invert the packing) for every one of the 2^32 input words of the real DateTime::try_from; unwinding assertions on, so the result is exhaustive rather than bounded.',
   note='Trusts Kani\'s model of the dev-profile build and the reference calendar predicate in kani/c15/lib.rs; counterexamples are replayed against the native dev and release builds and re-judged with Python\'s datetime before being reported.',
   technique='bounded model checking (Kani/CBMC, SAT) of the real code over a symbolic u32', ref='DESIGN.md 4/C15'),
}
NOT_YET = 'check not built yet in this round (see DESIGN.md section 4 for the planned solver-based check)'
NA = {
 'C08': 'whole-program determinism/convergence of the generator over a directory tree (hash seeds, thread timing, stale files): no bounded function whose inputs can be made symbolic; see DESIGN.md section 5',
}

def main():
    extra = {}
    p = os.path.join(HERE, 'tools', 'manifest_extra.json')
    if os.path.exists(p):
        extra = json.load(open(p))
    checks = []
    for pid in ALL:
        c = CHECKS.get(pid)
        if not c:
            continue
        checks.append({
            'property_id': pid,
            'quick_cmd': './check %s --tier quick' % pid,
            'thorough_cmd': './check %s --tier thorough' % pid,
            'evidence_file': 'evidence/%s.json' % pid,
            'replay_cmd_template': './check %s --replay {path}' % pid,
            'engine': c['engine'],
            'level_claimed': {'category': c['cat'], 'text': c['text'], 'design_ref': c['ref']},
            'level_note': c['note'],
            'technique': c['technique'],
        })
    na = []
    for pid in ALL:
        if pid in CHECKS:
            continue
        na.append({'property_id': pid, 'reason': NA.get(pid, NOT_YET)})
    m = {
        'version': 1,
        'setup_cmd': './setup.sh',
        'hooks': {
            'guard': 'gtker_wow_messages_verif',
            'enable': 'RUSTFLAGS="--cfg gtker_wow_messages_verif" (no source hooks are needed: crate-private items are read through the compiler\'s MIR with -Zalways-encode-mir)',
            'baseline_off_cmd': 'cd /repo && cargo test --workspace --no-fail-fast --offline',
            'source_commits': [],
            'add_only': True,
        },
        'engines': [
            {'name': 'mirsym', 'path': 'vf/mirsym.py', 'serves_properties': [p for p in ALL if 'mirsym' in CHECKS.get(p, {}).get('engine', '')],
             'kind_free_text': 'symbolic executor for rustc\'s monomorphised MIR (dumped by tools/mirdump, a rustc_public driver built with the nightly toolchain) producing z3 bit-vector queries; std containers modelled at API level (vf/models.py); independent wowm reader (vf/wowm.py) as the oracle; counterexamples replayed on native builds'},
            {'name': 'gen+encode', 'path': 'vf/gen.py', 'serves_properties': [p for p in ALL if 'gen' in CHECKS.get(p, {}).get('engine', '')],
             'kind_free_text': 'the real generator (wow_message_parser) built and run on a scratch copy of the current tree; its outputs are compared with the independent wowm reader / canonical encoder (vf/wowm.py, vf/encode.py) by z3'},
            {'name': 'cfgsat', 'path': 'vf/cfgscan.py', 'serves_properties': ['C19'],
             'kind_free_text': 'cfg/feature model of the library sources as z3 boolean formulas; counterexamples are feature sets replayed with cargo check'},
            {'name': 'kani', 'path': 'vf/kani.py', 'serves_properties': [p for p in ALL if 'kani' in CHECKS.get(p, {}).get('engine', '')],
             'kind_free_text': 'Kani 0.68 / CBMC 6.11 over the compiled crates; harness crates generated under work/ with path dependencies on /repo'},
        ],
        'checks': checks,
        'not_applicable': na,
        'notes': 'Fix commits in /repo and recorded findings are listed in known_findings.json and DESIGN.md section 7.',
    }
    json.dump(m, open(os.path.join(HERE, 'MANIFEST.json'), 'w'), indent=1)
    print('MANIFEST.json: %d checks, %d not applicable' % (len(checks), len(na)))

if __name__ == '__main__':
    main()
