#!/usr/bin/env python3
"""Generates MANIFEST.json from the table below (kept in one place so it stays valid)."""
import json, os
HERE = os.path.dirname(os.path.dirname(os.path.abspath(__file__)))
ALL = ['C%02d' % i for i in range(1, 21)]

CHECKS = {
 'C02': dict(cat='model_checking', engine='mirsym',
   text='A: declared size == bytes written for every message and covered shape (MIR of size()/write_into_vec on symbolic values). B: the real default write_unencrypted_{server,client} bodies and header helpers of all three expansions are executed with the body length a symbolic u32 (body summarised as "exactly s bytes"): z3 decides, for every body length the header form can express at once, that writing does not abort and the header equals the specification (2-byte / Wrath 3-byte form, opcode, endianness). C: every sync reader entry (opcode-enum readers and typed expect helpers, 3 expansions x 2 directions) is executed on an abstract stream with symbolic header bytes and a symbolic-length body buffer: consumed bytes == size-field width + size-field value, opcode and body size handed on are the header\'s. A, B and C are the induction step for aligned streams of any length.',
   note='B/C stubs: size_without_header()/write_into_vec of the representative message (SMSG/CMSG_WARDEN_DATA), read_opcodes / read_body, opcode_to_name. Overridden writers of compressed messages, async variants (C06) and encrypted variants (C05) are outside. The u16 overflow of the total frame length for the two largest bodies is a recorded finding.',
   technique='symbolic execution of rustc MIR into SMT (z3) with symbolic-length buffers (all body lengths / header bytes at once)', ref='DESIGN.md 4/C02'),
 'C01': dict(cat='model_checking', engine='mirsym',
   text='For every login and world message (all versions/expansions) and every covered control shape (branch choices, optional present/absent, array counts and string lengths up to the stated bounds, mask patterns) the real read_inner -> write_into_vec -> size functions are executed symbolically on the compiler\'s MIR over the canonical encoding produced by an independent reader of the wowm sources, with every field value a free bit-vector; z3 decides acceptance on every feasible path, byte-for-byte equality of the re-encoding and the declared size. Every message is re-verified on every run.',
   note='Trusts the MIR interpreter and its std models (vf/models.py), the independent wowm reader/encoder (vf/wowm.py, vf/encode.py) and the C15 contract for DateTime. Bounds: counts/lengths <= 2 (quick) / 3 (thorough), shapes per message capped (one-factor + seeded random coverage). Not covered: UpdateMask members (C13), compressed messages/arrays (zlib), AddonArray. Counterexamples are replayed through the public opcode-enum readers/writers of the native dev and release builds.',
   technique='symbolic execution of rustc MIR into SMT (z3), concolic path coverage, per message and shape', ref='DESIGN.md 4/C01'),
 'C04': dict(cat='model_checking', engine='mirsym',
   text='(a) For every enum-typed member of every message the member bytes of a canonical encoding are replaced by a symbolic value of the full wire width outside the declared set; z3 decides that every feasible path of the real read_inner returns the enum error carrying exactly that value. (b) Every constant-sized world message is executed with a symbolic body size != N and with N+-1 byte bodies and must return InvalidSize. (c) The six opcode dispatchers are executed with a symbolic opcode outside the wowm-defined set and must return the opcode error carrying that opcode.',
   note='Same trusted base as C01. Hosts: the first covered shape that can host an undeclared value per member (array elements collapsed to one representative). The typed expect_* helpers are covered by C02.',
   technique='symbolic execution of rustc MIR into SMT (z3): all undeclared wire values / sizes / opcodes at once', ref='DESIGN.md 4/C04'),
 'C09': dict(cat='model_checking', engine='mirsym',
   text='The set of body sizes accepted by the guard compiled into every world decoder is extracted by executing read_inner with a symbolic body_size (path conditions of the InvalidSize exits); z3 decides that it contains the true minimal and maximal encoded length computed over the whole conditional structure of the wowm definition (counts and string lengths in their full type ranges, no unrolling), that a single-size guard equals the only possible length, and that the length of every covered canonical shape is accepted.',
   note='Only the compiled guard is compared: the IR sizes object and the docs are not produced in this snapshot (generator aborts). Arrays with 32-bit counts / endless arrays and SizedCString use the implementation limits as stated assumptions. Login messages have no guard.',
   technique='MIR symbolic execution for the guard set + z3 queries against interval-exact lengths', ref='DESIGN.md 4/C09'),
 'C11': dict(cat='model_checking', engine='mirsym',
   text='Every conversion (from_int and TryFrom<u8..i64,usize>), as_int and variants() of every public enum (world: 3 expansions, login: 6 versions) is executed symbolically on the compiler\'s MIR with the argument a free bit-vector of the full source width; z3 decides agreement with the (name, value) list read independently from the wowm sources. No sampling of values or of definitions.',
   note='Trusts the MIR interpreter (vf/mirsym.py) and its std models, the independent wowm reader (vf/wowm.py), and the rule "variant i <-> enumerator i". Counterexamples are replayed on the native dev and release builds through the public API before being reported.',
   technique='symbolic execution of rustc MIR into SMT (z3 bit-vectors), all integers of each source type at once', ref='DESIGN.md 4/C11'),
 'C12': dict(cat='model_checking', engine='mirsym',
   text='Every method of every generated flag type (new/as_int/empty/is_empty/all, is_/new_/set_/clear_ per enumerator, the six bit operators, every From/TryFrom integer conversion) and every declared constant is executed on the MIR with free bit-vector arguments; z3 decides equality with the set-algebra specification built from the wowm definition.',
   note='Trusts the MIR interpreter and the wowm reader; synthesised message-local flag structs are covered through C01 (their accessors are not yet checked individually). Counterexamples are replayed natively (dev + release).',
   technique='symbolic execution of rustc MIR into SMT (z3 bit-vectors), all raw values at once', ref='DESIGN.md 4/C12'),
 'C15': dict(cat='model_checking', engine='kani',
   text='CBMC decides three assertions (accepted => valid, valid => accepted, accessors invert the packing) for every one of the 2^32 input words of the real DateTime::try_from; unwinding assertions on, so the result is exhaustive rather than bounded.',
   note='Trusts Kani\'s model of the dev-profile build and the reference calendar predicate in kani/c15/lib.rs; counterexamples are replayed against the native dev and release builds and re-judged with Python\'s datetime before being reported.',
   technique='bounded model checking (Kani/CBMC, SAT) of the real code over a symbolic u32', ref='DESIGN.md 4/C15'),
}
NOT_YET = 'check not built yet in this round (see DESIGN.md section 4 for the planned solver-based check)'
NA = {
 'C08': 'whole-program determinism/convergence of the generator over a directory tree (hash seeds, thread timing, stale files): no bounded function whose inputs can be made symbolic; see DESIGN.md section 5',
}

def main():
    extra = {}
    p = os.path.join(HERE, 'tools', 'manifest_extra.json')
    if os.path.exists(p):
        extra = json.load(open(p))
    checks = []
    for pid in ALL:
        c = CHECKS.get(pid)
        if not c:
            continue
        checks.append({
            'property_id': pid,
            'quick_cmd': './check %s --tier quick' % pid,
            'thorough_cmd': './check %s --tier thorough' % pid,
            'evidence_file': 'evidence/%s.json' % pid,
            'replay_cmd_template': './check %s --replay {path}' % pid,
            'engine': c['engine'],
            'level_claimed': {'category': c['cat'], 'text': c['text'], 'design_ref': c['ref']},
            'level_note': c['note'],
            'technique': c['technique'],
        })
    na = []
    for pid in ALL:
        if pid in CHECKS:
            continue
        na.append({'property_id': pid, 'reason': NA.get(pid, NOT_YET)})
    m = {
        'version': 1,
        'setup_cmd': './setup.sh',
        'hooks': {
            'guard': 'gtker_wow_messages_verif',
            'enable': 'RUSTFLAGS="--cfg gtker_wow_messages_verif" (no source hooks are needed: crate-private items are read through the compiler\'s MIR with -Zalways-encode-mir)',
            'baseline_off_cmd': 'cd /repo && cargo test --workspace --no-fail-fast --offline',
            'source_commits': [],
            'add_only': True,
        },
        'engines': [
            {'name': 'mirsym', 'path': 'vf/mirsym.py', 'serves_properties': [p for p in ALL if CHECKS.get(p, {}).get('engine') == 'mirsym'],
             'kind_free_text': 'symbolic executor for rustc\'s monomorphised MIR (dumped by tools/mirdump, a rustc_public driver built with the nightly toolchain) producing z3 bit-vector queries; std containers modelled at API level (vf/models.py); independent wowm reader (vf/wowm.py) as the oracle; counterexamples replayed on native builds'},
            {'name': 'kani', 'path': 'vf/kani.py', 'serves_properties': [p for p in ALL if CHECKS.get(p, {}).get('engine') == 'kani'],
             'kind_free_text': 'Kani 0.68 / CBMC 6.11 over the compiled crates; harness crates generated under work/ with path dependencies on /repo'},
        ],
        'checks': checks,
        'not_applicable': na,
        'notes': 'Fix commits in /repo and recorded findings are listed in known_findings.json and DESIGN.md section 7.',
    }
    json.dump(m, open(os.path.join(HERE, 'MANIFEST.json'), 'w'), indent=1)
    print('MANIFEST.json: %d checks, %d not applicable' % (len(checks), len(na)))

if __name__ == '__main__':
    main()
