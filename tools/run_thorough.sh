#!/bin/bash
cd /verif
git -C /repo diff --quiet || { echo "/repo is dirty: refusing"; exit 9; }
export VERIF_EVIDENCE=/verif/work/thorough/evidence VERIF_REPLAYS=/verif/work/thorough/replays
mkdir -p $VERIF_EVIDENCE $VERIF_REPLAYS
for id in C11 C12 C14 C15 C13 C09 C19 C16 C17 C18 C10 C20 C02 C04 C03 C07 C05 C01 C06; do
  t0=$(date +%s)
  timeout 14400 ./check $id --tier thorough > /tmp/runall_thorough_$id.log 2>&1; rc=$?
  echo "$id rc=$rc $(( $(date +%s) - t0 ))s $(tail -1 /tmp/runall_thorough_$id.log | cut -c1-140)"
done
