// mirdump: rustc driver (rustc_public) that writes monomorphised, trait-resolved MIR of the functions
// reachable from a set of roots as tab-separated JSON lines:  kind \t id \t json
// Roots are (a) every non-generic function of the local "roots" crate, and (b) functions of dependency
// crates selected by glob patterns (crate-private ones included), optionally instantiated with the
// parameter types of the local function `__templates`.
#![feature(rustc_private)]
extern crate rustc_driver;
extern crate rustc_interface;
extern crate rustc_middle;
#[macro_use]
extern crate rustc_public;
extern crate rustc_public_bridge;
extern crate serde_json;
use rustc_public_bridge::IndexedVal;

use rustc_public::mir::mono::{Instance, InstanceKind};
use rustc_public::mir::visit::{Location, MirVisitor};
use rustc_public::mir::{Body, TerminatorKind};
use rustc_public::ty::{AdtDef, GenericArgKind, GenericArgs, RigidTy, Ty, TyKind};
use rustc_public::CrateDef;
use rustc_public::CrateDefType;
use serde_json::{json, Value};
use std::collections::{HashSet, VecDeque};
use std::io::Write;
use std::ops::ControlFlow;

struct TyCollector {
    tys: Vec<Ty>,
    allocs: Vec<rustc_public::ty::Allocation>,
}
impl MirVisitor for TyCollector {
    fn visit_ty(&mut self, ty: &Ty, _loc: Location) {
        self.tys.push(*ty);
    }
    fn visit_mir_const(&mut self, c: &rustc_public::ty::MirConst, loc: Location) {
        if let rustc_public::ty::ConstantKind::Allocated(a) = c.kind() {
            if !a.provenance.ptrs.is_empty() {
                self.allocs.push(a.clone());
            }
        }
        self.super_mir_const(c, loc);
    }
}

struct Dumper {
    out: std::io::BufWriter<std::fs::File>,
    seen_ty: HashSet<String>,
    seen_adt: HashSet<String>,
    stop: Vec<String>,
}

fn ty_key(ty: &Ty) -> String {
    serde_json::to_string(ty).unwrap()
}

fn glob(pat: &str, s: &str) -> bool {
    // '*' matches any substring; anchored at both ends
    let parts: Vec<&str> = pat.split('*').collect();
    if parts.len() == 1 {
        return pat == s;
    }
    let mut pos = 0usize;
    for (i, p) in parts.iter().enumerate() {
        if i == 0 {
            if !s.starts_with(p) { return false; }
            pos = p.len();
        } else if i == parts.len() - 1 {
            if p.is_empty() { return true; }
            return s.len() >= pos + p.len() && s.ends_with(p);
        } else {
            match s[pos..].find(p) {
                Some(k) => pos += k + p.len(),
                None => return false,
            }
        }
    }
    true
}

fn strip(v: &mut Value) {
    // drop debug info and spans: they are large and not used by the interpreter
    match v {
        Value::Object(m) => {
            m.remove("var_debug_info");
            m.remove("span");
            m.remove("source_info");
            for (_, x) in m.iter_mut() { strip(x); }
        }
        Value::Array(a) => { for x in a.iter_mut() { strip(x); } }
        _ => {}
    }
}

impl Dumper {
    fn line(&mut self, kind: &str, id: &str, v: Value) {
        writeln!(self.out, "{}\t{}\t{}", kind, id, v).unwrap();
    }
    fn dump_args(&mut self, args: &GenericArgs) {
        for a in args.0.iter() {
            if let GenericArgKind::Type(t) = a {
                self.dump_ty(*t);
            }
        }
    }
    fn dump_adt(&mut self, def: AdtDef, args: &GenericArgs, ty: Ty) {
        let key = ty_key(&ty);
        if !self.seen_adt.insert(key.clone()) {
            return;
        }
        let mut variants = vec![];
        for (vi, v) in def.variants().into_iter().enumerate() {
            let mut fields = vec![];
            for f in v.fields() {
                let fty = f.ty_with_args(args);
                fields.push(json!({"name": f.name, "ty": fty}));
            }
            let discr = if def.kind().is_enum() {
                Some(def.discriminant_for_variant(rustc_public::ty::VariantIdx::to_val(vi)).val.to_string())
            } else {
                None
            };
            variants.push(json!({"name": v.name(), "fields": fields, "discr": discr}));
        }
        let rec = json!({"ty": ty, "name": def.name(), "trimmed": def.trimmed_name(), "adt_kind": format!("{}", def.kind()), "is_box": def.is_box(), "variants": variants});
        self.line("adt", &key, rec);
        for v in def.variants() {
            for f in v.fields() {
                let fty = f.ty_with_args(args);
                self.dump_ty(fty);
            }
        }
    }
    fn dump_ty(&mut self, ty: Ty) {
        let key = ty_key(&ty);
        if !self.seen_ty.insert(key.clone()) {
            return;
        }
        let kind = ty.kind();
        let shape = ty.layout().ok().map(|l| l.shape());
        let size = shape.as_ref().map(|s| s.size.bytes());
        let fields = shape.as_ref().map(|s| serde_json::to_value(&s.fields).unwrap());
        let variants = shape.as_ref().map(|s| serde_json::to_value(&s.variants).unwrap());
        let rec = json!({"id": ty, "str": format!("{}", ty), "kind": kind, "size": size, "fields": fields, "layout_variants": variants});
        self.line("ty", &key, rec);
        if let TyKind::RigidTy(r) = kind {
            match r {
                RigidTy::Adt(def, args) => {
                    self.dump_args(&args);
                    self.dump_adt(def, &args, ty);
                }
                RigidTy::Array(t, _) | RigidTy::Slice(t) | RigidTy::RawPtr(t, _) | RigidTy::Ref(_, t, _) => self.dump_ty(t),
                RigidTy::Tuple(ts) => {
                    for t in ts {
                        self.dump_ty(t);
                    }
                }
                RigidTy::Closure(_, args) | RigidTy::FnDef(_, args) | RigidTy::Coroutine(_, args) => self.dump_args(&args),
                _ => {}
            }
        }
    }
    fn stopped(&self, name: &str) -> bool {
        self.stop.iter().any(|p| if p.contains('*') { glob(p, name) } else { name.starts_with(p.as_str()) })
    }
}

fn main() {
    let args: Vec<String> = std::env::args().collect();
    let _ = run!(&args, || -> ControlFlow<()> {
        let spec_path = match std::env::var("MIRDUMP_SPEC") { Ok(p) => p, Err(_) => return ControlFlow::Continue(()) };
        let spec: Value = serde_json::from_str(&std::fs::read_to_string(&spec_path).unwrap()).unwrap();
        let target = spec["crate"].as_str().unwrap_or("roots").to_string();
        if rustc_public::local_crate().name != target {
            return ControlFlow::Continue(());
        }
        let path = spec["out"].as_str().unwrap().to_string();
        let stop: Vec<String> = spec["stop"].as_array().map(|a| a.iter().map(|x| x.as_str().unwrap().to_string()).collect()).unwrap_or_default();
        let list_only = spec["list_only"].as_bool().unwrap_or(false);
        let mut d = Dumper { out: std::io::BufWriter::with_capacity(1 << 20, std::fs::File::create(&path).unwrap()), seen_ty: HashSet::new(), seen_adt: HashSet::new(), stop };
        let mut queue: VecDeque<Instance> = VecDeque::new();
        let mut seen: HashSet<String> = HashSet::new();
        let mut templates: Vec<Ty> = vec![];
        // local roots
        for item in rustc_public::all_local_items().iter() {
            if let Ok(inst) = Instance::try_from(*item) {
                if inst.name().ends_with("__templates") {
                    if let Some(b) = inst.body() {
                        for l in b.arg_locals() { templates.push(l.ty); }
                    }
                    continue;
                }
                let lpats: Vec<String> = spec["local_pats"].as_array().map(|a| a.iter().map(|x| x.as_str().unwrap().to_string()).collect()).unwrap_or_default();
                if !lpats.is_empty() && !lpats.iter().any(|p| inst.name().contains(p.as_str())) { continue; }
                if spec["local_roots"].as_bool().unwrap_or(true) && inst.has_body() && seen.insert(inst.mangled_name()) {
                    let sig = inst.fn_abi().ok().map(|a| json!({"args": a.args.iter().map(|x| x.ty).collect::<Vec<_>>(), "ret": a.ret.ty}));
                    if let Some(a) = inst.fn_abi().ok() { for x in a.args.iter() { d.dump_ty(x.ty); } d.dump_ty(a.ret.ty); }
                    d.line("root", &inst.mangled_name(), json!({"name": inst.name(), "crate": target, "pat": "local", "sig": sig}));
                    queue.push_back(inst);
                }
            }
        }
        for (ti, t) in templates.iter().enumerate() {
            d.dump_ty(*t);
            d.line("template", &ti.to_string(), json!({"ty": t, "str": format!("{}", t)}));
        }
        for c in rustc_public::external_crates() {
            if !c.name.starts_with("wow") { continue; }
            d.line("crate", &c.name, json!({"fn_defs": c.fn_defs().len()}));
        }
        // dependency roots
        if let Some(rs) = spec["roots"].as_array() {
            for r in rs {
                let cname = r["crate"].as_str().unwrap();
                let pats: Vec<String> = r["pats"].as_array().unwrap().iter().map(|x| x.as_str().unwrap().to_string()).collect();
                let targs: Vec<usize> = r["targs"].as_array().map(|a| a.iter().map(|x| x.as_u64().unwrap() as usize).collect()).unwrap_or_default();
                let ga = GenericArgs(targs.iter().map(|i| GenericArgKind::Type(templates[*i])).collect());
                for c in rustc_public::find_crates(cname) {
                    for def in c.fn_defs().iter() {
                        let name = def.name();
                        let hit = pats.iter().find(|p| glob(p, &name));
                        if let Some(p) = hit {
                            if list_only {
                                d.line("def", &name, json!({"pat": p}));
                                continue;
                            }
                            // build the generic arguments in declaration order: template types for type parameters, erased regions for lifetimes
                            let ga = {
                                let mut out = vec![];
                                let mut ti = 0usize;
                                let mut okk = true;
                                if let TyKind::RigidTy(RigidTy::FnDef(_, idargs)) = def.ty().kind() {
                                    for a in idargs.0.iter() {
                                        match a {
                                            GenericArgKind::Lifetime(_) => out.push(GenericArgKind::Lifetime(rustc_public::ty::Region { kind: rustc_public::ty::RegionKind::ReErased })),
                                            GenericArgKind::Type(_) => { if ti < ga.0.len() { out.push(ga.0[ti].clone()); ti += 1; } else { okk = false; } }
                                            GenericArgKind::Const(_) => { okk = false; }
                                        }
                                    }
                                }
                                if !okk || ti != ga.0.len() { d.line("rooterr", &name, json!({"err": "generic arity", "pat": p})); continue; }
                                GenericArgs(out)
                            };
                            match Instance::resolve(*def, &ga) {
                                Ok(inst) => {
                                    let file = def.span().get_filename();
                                    let line = def.span().get_lines().start_line;
                                    let sig = inst.fn_abi().ok().map(|a| json!({"args": a.args.iter().map(|x| x.ty).collect::<Vec<_>>(), "ret": a.ret.ty}));
                                    if let Some(a) = inst.fn_abi().ok() { for x in a.args.iter() { d.dump_ty(x.ty); } d.dump_ty(a.ret.ty); }
                                    d.line("root", &inst.mangled_name(), json!({"name": inst.name(), "def": name, "crate": cname, "pat": p, "file": file, "line": line, "sig": sig}));
                                    if seen.insert(inst.mangled_name()) {
                                        queue.push_back(inst);
                                    }
                                }
                                Err(e) => { d.line("rooterr", &name, json!({"err": format!("{:?}", e), "pat": p})); }
                            }
                        }
                    }
                }
            }
        }
        let mut dyn_methods: Vec<(rustc_public::ty::FnDef, String)> = vec![];
        let mut dyn_selfs: Vec<Ty> = vec![];
        let mut tried: HashSet<String> = HashSet::new();
        loop {
            while let Some(inst) = queue.pop_front() {
                let name = inst.name();
                let kind = match inst.kind { InstanceKind::Item => "item", InstanceKind::Intrinsic => "intrinsic", InstanceKind::Virtual { .. } => "virtual", InstanceKind::Shim => "shim" };
                if !inst.has_body() || d.stopped(&name) {
                    let sig = inst.fn_abi().ok().map(|a| json!({"args": a.args.iter().map(|x| x.ty).collect::<Vec<_>>(), "ret": a.ret.ty}));
                    let mut reified = serde_json::Map::new();
                    if let Some(a) = inst.fn_abi().ok() {
                        for x in a.args.iter() {
                            d.dump_ty(x.ty);
                            // closures / fn items passed to modelled std functions (fold, map_err, ...): resolve so the model can call back
                            let mut t = x.ty;
                            loop {
                                match t.kind() {
                                    TyKind::RigidTy(RigidTy::Ref(_, inner, _)) => { t = inner; }
                                    _ => break,
                                }
                            }
                            // adaptor structs (Map<I, F>, ...): look through their generic arguments for fn items / closures
                            let mut stack = vec![(t, 0usize)];
                            while let Some((ty2, depth)) = stack.pop() {
                                if let TyKind::RigidTy(RigidTy::Adt(_, aargs)) = ty2.kind() {
                                    if depth < 3 {
                                        for a in aargs.0.iter() { if let GenericArgKind::Type(t3) = a { stack.push((*t3, depth + 1)); } }
                                    }
                                }
                                if depth == 0 { continue; }
                                if let TyKind::RigidTy(RigidTy::Closure(def, gargs)) = ty2.kind() {
                                    if let Ok(callee) = Instance::resolve_closure(def, &gargs, rustc_public::ty::ClosureKind::FnMut).or_else(|_| Instance::resolve_closure(def, &gargs, rustc_public::ty::ClosureKind::FnOnce)) {
                                        reified.insert(ty_key(&ty2), json!({"key": callee.mangled_name(), "name": callee.name()}));
                                        if seen.insert(callee.mangled_name()) { queue.push_back(callee); }
                                    }
                                }
                                if let TyKind::RigidTy(RigidTy::FnDef(def, gargs)) = ty2.kind() {
                                    if let Ok(callee) = Instance::resolve(def, &gargs) {
                                        reified.insert(ty_key(&ty2), json!({"key": callee.mangled_name(), "name": callee.name(), "nested": true}));
                                        if !matches!(callee.kind, InstanceKind::Virtual{..}) && seen.insert(callee.mangled_name()) { queue.push_back(callee); }
                                    }
                                }
                            }
                            if let TyKind::RigidTy(RigidTy::Closure(def, gargs)) = t.kind() {
                                if let Ok(callee) = Instance::resolve_closure(def, &gargs, rustc_public::ty::ClosureKind::FnMut).or_else(|_| Instance::resolve_closure(def, &gargs, rustc_public::ty::ClosureKind::FnOnce)) {
                                    reified.insert(ty_key(&t), json!({"key": callee.mangled_name(), "name": callee.name()}));
                                    if seen.insert(callee.mangled_name()) { queue.push_back(callee); }
                                }
                            }
                            if let TyKind::RigidTy(RigidTy::FnDef(def, gargs)) = t.kind() {
                                if let Ok(callee) = Instance::resolve(def, &gargs) {
                                    reified.insert(ty_key(&t), json!({"key": callee.mangled_name(), "name": callee.name()}));
                                    if !matches!(callee.kind, InstanceKind::Virtual{..}) && seen.insert(callee.mangled_name()) { queue.push_back(callee); }
                                }
                            }
                        }
                        d.dump_ty(a.ret.ty);
                    }
                    d.line("fn", &inst.mangled_name(), json!({"name": name, "kind": kind, "body": Value::Null, "intrinsic": if matches!(inst.kind, InstanceKind::Intrinsic) { Some(inst.intrinsic_name()) } else { None }, "sig": sig, "reified": reified}));
                    continue;
                }
                let body: Body = inst.body().unwrap();
                let mut calls = serde_json::Map::new();
                for (i, bb) in body.blocks.iter().enumerate() {
                    if let TerminatorKind::Call { func, .. } = &bb.terminator.kind {
                        let fty = func.ty(body.locals()).unwrap();
                        if let TyKind::RigidTy(RigidTy::FnDef(def, gargs)) = fty.kind() {
                            if let Ok(callee) = Instance::resolve(def, &gargs) {
                                if let InstanceKind::Virtual { .. } = callee.kind { dyn_methods.push((def, def.name())); }
                                calls.insert(i.to_string(), json!({"key": callee.mangled_name(), "name": callee.name(), "virtual": matches!(callee.kind, InstanceKind::Virtual{..}), "trait_fn": def.name()}));
                                if seen.insert(callee.mangled_name()) {
                                    queue.push_back(callee);
                                }
                            }
                        }
                    }
                }
                // function items used as values (fn pointers, closures passed to combinators): ReifyFnPointer casts
                let mut reified = serde_json::Map::new();
                let mut tc = TyCollector { tys: vec![], allocs: vec![] };
                tc.visit_body(&body);
                for l in body.locals() {
                    tc.tys.push(l.ty);
                }
                for t in tc.tys.iter() {
                    if let TyKind::RigidTy(RigidTy::FnDef(def, gargs)) = t.kind() {
                        if let Ok(callee) = Instance::resolve(def, &gargs) {
                            reified.insert(ty_key(t), json!({"key": callee.mangled_name(), "name": callee.name()}));
                            if !matches!(callee.kind, InstanceKind::Virtual{..}) && seen.insert(callee.mangled_name()) { queue.push_back(callee); }
                        }
                    }
                    if let TyKind::RigidTy(RigidTy::Closure(def, gargs)) = t.kind() {
                        if let Ok(callee) = Instance::resolve_closure(def, &gargs, rustc_public::ty::ClosureKind::FnMut).or_else(|_| Instance::resolve_closure(def, &gargs, rustc_public::ty::ClosureKind::FnOnce)) {
                            reified.insert(ty_key(t), json!({"key": callee.mangled_name(), "name": callee.name()}));
                            if seen.insert(callee.mangled_name()) { queue.push_back(callee); }
                        }
                    }
                }
                for bb in body.blocks.iter() { for st in bb.statements.iter() {
                    if let rustc_public::mir::StatementKind::Assign(_, rv) = &st.kind {
                        if let rustc_public::mir::Rvalue::Aggregate(rustc_public::mir::AggregateKind::Coroutine(..), _) = rv {
                            if let Ok(t) = rv.ty(body.locals()) { dyn_selfs.push(t); }
                        }
                    }
                } }
                for t in tc.tys {
                    d.dump_ty(t);
                }
                let mut pending = tc.allocs;
                while let Some(a) = pending.pop() {
                    for (_off, prov) in a.provenance.ptrs.iter() {
                        let key = serde_json::to_string(&prov.0).unwrap();
                        if !d.seen_ty.insert(format!("alloc:{}", key)) { continue; }
                        match rustc_public::mir::alloc::GlobalAlloc::from(prov.0) {
                            rustc_public::mir::alloc::GlobalAlloc::Memory(m) => {
                                d.line("alloc", &key, json!({"id": prov.0, "mem": m}));
                                if !m.provenance.ptrs.is_empty() { pending.push(m); }
                            }
                            rustc_public::mir::alloc::GlobalAlloc::Function(f) => {
                                d.line("alloc", &key, json!({"id": prov.0, "fn": {"key": f.mangled_name(), "name": f.name()}}));
                                if seen.insert(f.mangled_name()) { queue.push_back(f); }
                            }
                            other => { d.line("alloc", &key, json!({"id": prov.0, "other": format!("{:?}", other)})); }
                        }
                    }
                }
                let mut bj = serde_json::to_value(&body).unwrap();
                strip(&mut bj);
                d.line("fn", &inst.mangled_name(), json!({"name": name, "kind": kind, "body": bj, "calls": calls, "reified": reified, "arg_count": body.arg_locals().len()}));
            }
            // virtual dispatch candidates: resolve every seen trait method for every coroutine type
            let mut added = false;
            for (def, dn) in dyn_methods.iter() {
                for t in dyn_selfs.iter() {
                    let k = format!("{}|{}", dn, ty_key(t));
                    if !tried.insert(k.clone()) { continue; }
                    let ga = GenericArgs(vec![GenericArgKind::Type(*t)]);
                    if let Ok(callee) = Instance::resolve(*def, &ga) {
                        d.line("vimpl", &k, json!({"trait_fn": dn, "self_ty": t, "key": callee.mangled_name(), "name": callee.name()}));
                        if seen.insert(callee.mangled_name()) { queue.push_back(callee); added = true; }
                    }
                }
            }
            if !added { break; }
        }
        d.out.flush().unwrap();
        ControlFlow::Continue(())
    });
}
