#!/bin/bash
# builds tools/mirdump/mirdump.rs with the nightly toolchain's rustc-dev libraries into work/bin/mirdump
set -e
here="$(cd "$(dirname "$0")" && pwd)"
out="$here/../../work/bin"
mkdir -p "$out"
if [ "$out/mirdump" -nt "$here/mirdump.rs" ]; then exit 0; fi
rustc +nightly --edition 2021 -O "$here/mirdump.rs" -o "$out/mirdump.tmp" 2>&1 | grep -v '^warning\|^$' | head -40 || true
mv "$out/mirdump.tmp" "$out/mirdump"
echo "built $out/mirdump"
