#!/bin/bash
cd /verif
{
tools/run_seed.sh C06-tokio-fixed-string-short-read C06
for id in C06 C01 C07; do t0=$(date +%s); VERIF_SEED=1 ./check $id --tier quick > /tmp/final_$id.log 2>&1; echo "$id quick rc=$? $(( $(date +%s) - t0 ))s $(tail -1 /tmp/final_$id.log | cut -c1-120)"; done
export VERIF_EVIDENCE=/verif/work/thorough/evidence VERIF_REPLAYS=/verif/work/thorough/replays
for id in C07 C03; do t0=$(date +%s); timeout 7200 ./check $id --tier thorough > /tmp/runall_thorough_$id.log 2>&1; echo "$id thorough rc=$? $(( $(date +%s) - t0 ))s $(tail -1 /tmp/runall_thorough_$id.log | cut -c1-120)"; done
} > /tmp/final_batch.txt 2>&1
