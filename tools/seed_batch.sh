#!/bin/bash
cd /verif
R=tools/run_seed.sh
{
$R C01-varitemrandprop-sign C01 --only GUILD_BANK_LIST
$R C02-attackerstate-size C02 --only ATTACKERSTATE
$R C03-updatemask-zero-blocks C03 --only UPDATE_OBJECT
$R C03-updatemask-zero-blocks C13
$R C04-client-opcode-alias C04 --only __none__
$R C04-client-opcode-alias C02 --only BC
$R C05-wrath-encrypted-threshold C05
$R C06-tokio-fixed-string-short-read C06
$R C10-ir-else-values C10 --only MESSAGECHAT
$R C11-i8-not-bitwise C11
$R C12-clear-all-resist-toggle C12
$R C12-clear-all-resist-toggle C01 --only ATTACKERSTATE
$R C13-corpse-size-header C13
} > /verif/seeded/detect_summary.txt 2>&1
