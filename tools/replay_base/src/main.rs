// Native replay runner over wow_world_base (public API only).
use std::env;
fn main() {
    let a: Vec<String> = env::args().collect();
    match a.get(1).map(|s| s.as_str()) {
        Some("datetime") => {
            // datetime <u32>...  -> one line per value
            for s in &a[2..] {
                let v: u32 = s.parse().unwrap();
                match wow_world_base::shared::DateTime::try_from(v) {
                    Ok(d) => println!("{} ok as_int={} minutes={} hours={} weekday={} month_day={} month={} year={}",
                        v, d.as_int(), d.minutes(), d.hours(), d.weekday(), d.month_day(), d.month().iso8601() - 1, d.years_after_2000()),
                    Err(e) => println!("{} err {:?}", v, e),
                }
            }
        }
        Some("sincos") => {
            // sincos <yaw f32 bits>... -> rotation = 2*PI - yaw as the library computes it; prints bits of rotation, sin, cos
            for s in &a[2..] {
                let yaw = f32::from_bits(s.parse::<u32>().unwrap());
                let rotation = 2.0 * std::f32::consts::PI - yaw;
                println!("{} {} {} {}", s, rotation.to_bits(), rotation.sin().to_bits(), rotation.cos().to_bits());
            }
        }
        Some("sinf") => {
            // sinf <f32 bits>... -> bits of x.sin() and x.cos() as this platform's f32 implementation returns them
            for s in &a[2..] {
                let x = f32::from_bits(s.parse::<u32>().unwrap());
                println!("{} {} {}", s, x.sin().to_bits(), x.cos().to_bits());
            }
        }
        Some("dist3") | Some("dist2") | Some("within") => {
            let v: Vec<f32> = a[2..].iter().map(|s| f32::from_bits(s.parse::<u32>().unwrap())).collect();
            use wow_world_base::shared::vector3d_vanilla_tbc_wrath::Vector3d;
            use wow_world_base::shared::vector2d_vanilla_tbc_wrath::Vector2d;
            match a[1].as_str() {
                "dist3" => println!("{:e}", wow_world_base::geometry::distance_between(Vector3d { x: v[0], y: v[1], z: v[2] }, Vector3d { x: v[3], y: v[4], z: v[5] })),
                "dist2" => println!("{:e}", wow_world_base::geometry::distance_2d(Vector2d { x: v[0], y: v[1] }, Vector2d { x: v[2], y: v[3] })),
                _ => println!("{}", wow_world_base::geometry::is_within_distance(Vector3d { x: v[0], y: v[1], z: v[2] }, Vector3d { x: v[3], y: v[4], z: v[5] }, v[6])),
            }
        }
        Some("square") => {
            // square px py pz sx sy sz length width height yaw   (all f32 bits)
            let v: Vec<f32> = a[2..].iter().map(|s| f32::from_bits(s.parse::<u32>().unwrap())).collect();
            let p = wow_world_base::shared::vector3d_vanilla_tbc_wrath::Vector3d { x: v[0], y: v[1], z: v[2] };
            let q = wow_world_base::shared::vector3d_vanilla_tbc_wrath::Vector3d { x: v[3], y: v[4], z: v[5] };
            println!("{}", wow_world_base::geometry::is_within_square(p, q, v[6], v[7], v[8], v[9]));
        }
        _ => { eprintln!("usage: replay_base datetime <u32>... | sincos <bits>... | square <10 x f32 bits>"); std::process::exit(2); }
    }
}
