// Native replay runner over wow_world_base (public API only).
use std::env;
fn main() {
    let a: Vec<String> = env::args().collect();
    match a.get(1).map(|s| s.as_str()) {
        Some("datetime") => {
            // datetime <u32>...  -> one line per value
            for s in &a[2..] {
                let v: u32 = s.parse().unwrap();
                match wow_world_base::shared::DateTime::try_from(v) {
                    Ok(d) => println!("{} ok as_int={} minutes={} hours={} weekday={} month_day={} month={} year={}",
                        v, d.as_int(), d.minutes(), d.hours(), d.weekday(), d.month_day(), d.month().iso8601() - 1, d.years_after_2000()),
                    Err(e) => println!("{} err {:?}", v, e),
                }
            }
        }
        _ => { eprintln!("usage: replay_base datetime <u32>..."); std::process::exit(2); }
    }
}
