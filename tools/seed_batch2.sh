#!/bin/bash
cd /verif
R=tools/run_seed.sh
{
./check C06 > /tmp/c06_clean.log 2>&1; echo "C06 clean rc=$? $(tail -1 /tmp/c06_clean.log)"
$R C06-tokio-fixed-string-short-read C06
$R C02-attackerstate-size C02 --only ATTACKERSTATE
$R C14-security-flag-overwrite C14
$R C15-leap-year-2200 C15
$R C20-sin-cos-yaw C20
./check C03 > /tmp/c03_clean.log 2>&1; echo "C03 clean rc=$? $(tail -1 /tmp/c03_clean.log)"
} > /verif/seeded/detect_summary2.txt 2>&1
