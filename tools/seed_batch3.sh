#!/bin/bash
cd /verif
R=tools/run_seed.sh
{
$R C20-sin-cos-yaw C20
$R C19-alloc-limit-by-feature C19
$R C18-compressed-example-skip C18
$R C16-fulfills-all-hoisted-flag C16
$R C07-else-branch-maximum C07
for sd in 1 2 3; do VERIF_SEED=$sd VERIF_EVIDENCE=/tmp/ev_s$sd VERIF_REPLAYS=/tmp/rp_s$sd ./check C16 > /tmp/c16_s$sd.log 2>&1; echo "C16 clean seed=$sd rc=$? $(tail -1 /tmp/c16_s$sd.log)"; done
./check C07 > /tmp/c07_clean.log 2>&1; echo "C07 clean rc=$? $(tail -1 /tmp/c07_clean.log)"
} > /verif/seeded/detect_summary3.txt 2>&1
