#!/bin/bash
# run_seed.sh <seed-dir-name> <check-id> [extra check args]: apply the seeded change to /repo, run the check, undo it.
# Never leaves /repo modified. Output: seeded/<seed>/detect_<check>.log
seed="$1"; shift; chk="$1"; shift
d=/verif/seeded/$seed
exec 8>/verif/work/repo.lock; flock 8
cd /repo && git diff --quiet || { echo "/repo is dirty"; exit 9; }
git -C /repo apply "$d/patch.diff" || { echo "patch does not apply"; exit 8; }
cd /verif && ./check $chk "$@" > $d/detect_$chk.log 2>&1; rc=$?
git -C /repo checkout -- . ; git -C /repo clean -fdq -e target 2>/dev/null
echo "$seed $chk rc=$rc violations=$(grep -c '^VIOLATION' $d/detect_$chk.log)"
exit 0
