#!/bin/bash
# Build the framework from files on disk only (offline). Idempotent.
set -e
cd "$(dirname "$0")"
export CARGO_NET_OFFLINE=true
mkdir -p work evidence replays
if [ -f tools/mirdump/mirdump.rs ]; then
  ./tools/mirdump/build.sh
fi
echo setup ok
