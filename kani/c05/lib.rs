// C05 (a): contract of the header ciphers of the real wow_srp crate, proved from an ARBITRARY cipher state
// (one inductive step): decrypt(encrypt(x)) == x, both halves stay in step, for any slice length up to 6 bytes.
// Every session key and every position in a stream is one of the states quantified over, so the step composes to
// whole message sequences. The halves are built from arbitrary bytes of their full size (layout checked by size).
#![allow(dead_code)]
#[cfg(kani)]
mod proofs {
    #[repr(C)]
    #[derive(Clone, Copy)]
    struct RawV { key: [u8; 40], index: u8, prev: u8 }
    #[repr(C)]
    #[derive(Clone, Copy)]
    struct RawT { key: [u8; 20], index: u8, prev: u8 }

    #[kani::proof]
    #[kani::unwind(8)]
    fn vanilla_step() {
        use wow_srp::vanilla_header::{DecrypterHalf, EncrypterHalf};
        assert!(std::mem::size_of::<EncrypterHalf>() == 42 && std::mem::size_of::<DecrypterHalf>() == 42);
        let raw = RawV { key: kani::any(), index: kani::any(), prev: kani::any() };
        kani::assume(raw.index < 40);
        let mut e: EncrypterHalf = unsafe { std::mem::transmute(raw) };
        let mut d: DecrypterHalf = unsafe { std::mem::transmute(raw) };
        let data: [u8; 6] = kani::any();
        let len: usize = kani::any();
        kani::assume(len <= 6);
        let mut buf = data;
        e.encrypt(&mut buf[..len]);
        // bytes beyond the slice are untouched
        let mut i = len;
        while i < 6 { assert!(buf[i] == data[i]); i += 1; }
        d.decrypt(&mut buf[..len]);
        assert!(buf == data, "decrypt(encrypt(x)) != x");
        let e2: RawV = unsafe { std::mem::transmute(e) };
        let d2: RawV = unsafe { std::mem::transmute(d) };
        assert!(e2.index == d2.index && e2.prev == d2.prev && e2.index < 40, "cipher halves out of step");
        kani::cover!(len == 6, "full header length reached");
    }

    #[kani::proof]
    #[kani::unwind(8)]
    fn tbc_step() {
        use wow_srp::tbc_header::{DecrypterHalf, EncrypterHalf};
        assert!(std::mem::size_of::<EncrypterHalf>() == 22 && std::mem::size_of::<DecrypterHalf>() == 22);
        let raw = RawT { key: kani::any(), index: kani::any(), prev: kani::any() };
        kani::assume(raw.index < 20);
        let mut e: EncrypterHalf = unsafe { std::mem::transmute(raw) };
        let mut d: DecrypterHalf = unsafe { std::mem::transmute(raw) };
        let data: [u8; 6] = kani::any();
        let len: usize = kani::any();
        kani::assume(len <= 6);
        let mut buf = data;
        e.encrypt(&mut buf[..len]);
        let mut i = len;
        while i < 6 { assert!(buf[i] == data[i]); i += 1; }
        d.decrypt(&mut buf[..len]);
        assert!(buf == data, "decrypt(encrypt(x)) != x");
        let e2: RawT = unsafe { std::mem::transmute(e) };
        let d2: RawT = unsafe { std::mem::transmute(d) };
        assert!(e2.index == d2.index && e2.prev == d2.prev && e2.index < 20, "cipher halves out of step");
        kani::cover!(len == 6, "full header length reached");
    }

    // Wrath: RC4 keystream. The halves wrap one private RC4 state; encrypt and decrypt are both "apply the keystream"
    // (that the wrappers only forward to it is checked on their MIR by part (b)). Proved here on the real code, from an
    // arbitrary 263-byte half: applying the keystream twice from the same state is the identity (so a decrypter in
    // the same state inverts the encrypter), and the state after a step does not depend on the data (so both sides
    // stay in step whatever bytes they process).
    #[repr(C, packed)]
    #[derive(Clone, Copy)]
    struct Packed { a: [u128; 16], b: u32, c: u16, d: u8 }

    #[kani::proof]
    #[kani::unwind(8)]
    fn wrath_keystream_step() {
        use wow_srp::wrath_header::ServerEncrypterHalf;
        assert!(std::mem::size_of::<ServerEncrypterHalf>() == 263);
        let raw: [u8; 263] = kani::any();
        let mut e1: ServerEncrypterHalf = unsafe { std::mem::transmute(raw) };
        let mut e2: ServerEncrypterHalf = unsafe { std::mem::transmute(raw) };
        let data: [u8; 5] = kani::any();
        let len: usize = kani::any();
        kani::assume(len <= 5);
        let mut buf = data;
        e1.encrypt(&mut buf[..len]);
        let mut k = len;
        while k < 5 { assert!(buf[k] == data[k]); k += 1; }
        e2.encrypt(&mut buf[..len]);
        let mut k = 0;
        while k < 5 { assert!(buf[k] == data[k], "keystream applied twice is not the identity"); k += 1; }
        // loop-free comparison of the two 263-byte post-states
        let a: Packed = unsafe { std::mem::transmute(e1) };
        let b: Packed = unsafe { std::mem::transmute(e2) };
        let (aa, ba) = (a.a, b.a);
        assert!(aa[0] == ba[0] && aa[1] == ba[1] && aa[2] == ba[2] && aa[3] == ba[3] && aa[4] == ba[4] && aa[5] == ba[5] && aa[6] == ba[6] && aa[7] == ba[7]
            && aa[8] == ba[8] && aa[9] == ba[9] && aa[10] == ba[10] && aa[11] == ba[11] && aa[12] == ba[12] && aa[13] == ba[13] && aa[14] == ba[14] && aa[15] == ba[15],
            "state after a step depends on the data");
        let (ab, bb, ac, bc, ad, bd) = (a.b, b.b, a.c, b.c, a.d, b.d);
        assert!(ab == bb && ac == bc && ad == bd, "state after a step depends on the data");
        kani::cover!(len == 5, "large header length reached");
    }

    // quick-tier variant: the full 5-byte (large) header length only
    #[kani::proof]
    #[kani::unwind(8)]
    fn wrath_keystream_step_len5() {
        use wow_srp::wrath_header::ServerEncrypterHalf;
        assert!(std::mem::size_of::<ServerEncrypterHalf>() == 263);
        let raw: [u8; 263] = kani::any();
        let mut e1: ServerEncrypterHalf = unsafe { std::mem::transmute(raw) };
        let mut e2: ServerEncrypterHalf = unsafe { std::mem::transmute(raw) };
        let data: [u8; 5] = kani::any();
        let len: usize = 5;
        let mut buf = data;
        e1.encrypt(&mut buf[..len]);
        let mut k = len;
        while k < 5 { assert!(buf[k] == data[k]); k += 1; }
        e2.encrypt(&mut buf[..len]);
        let mut k = 0;
        while k < 5 { assert!(buf[k] == data[k], "keystream applied twice is not the identity"); k += 1; }
        // loop-free comparison of the two 263-byte post-states
        let a: Packed = unsafe { std::mem::transmute(e1) };
        let b: Packed = unsafe { std::mem::transmute(e2) };
        let (aa, ba) = (a.a, b.a);
        assert!(aa[0] == ba[0] && aa[1] == ba[1] && aa[2] == ba[2] && aa[3] == ba[3] && aa[4] == ba[4] && aa[5] == ba[5] && aa[6] == ba[6] && aa[7] == ba[7]
            && aa[8] == ba[8] && aa[9] == ba[9] && aa[10] == ba[10] && aa[11] == ba[11] && aa[12] == ba[12] && aa[13] == ba[13] && aa[14] == ba[14] && aa[15] == ba[15],
            "state after a step depends on the data");
        let (ab, bb, ac, bc, ad, bd) = (a.b, b.b, a.c, b.c, a.d, b.d);
        assert!(ab == bb && ac == bc && ad == bd, "state after a step depends on the data");
        kani::cover!(len == 5, "large header length reached");
    }
}
