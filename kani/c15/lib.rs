// C15: DateTime accepts exactly real calendar instants; accessors invert its packing.
// The reference predicate below is written from the property text and wowm_language/src/types/datetime.md,
// not from the implementation: day counting is a plain loop over years and months.
#![allow(dead_code)]
#[cfg(kani)]
mod proofs {
    use wow_world_base::shared::{DateTime, Month, Weekday};

    fn leap(y: u32) -> bool {
        let y = y + 2000;
        (y % 4 == 0 && y % 100 != 0) || y % 400 == 0
    }
    fn mdays(m: u32, y: u32) -> u32 {
        match m {
            0 | 2 | 4 | 6 | 7 | 9 | 11 => 31,
            3 | 5 | 8 | 10 => 30,
            1 => if leap(y) { 29 } else { 28 },
            _ => 0,
        }
    }
    // 2000-01-01 was a Saturday; wire weekday numbering starts on Sunday = 0, so Saturday = 6.
    fn ref_weekday(y: u32, m: u32, d: u32) -> u32 {
        let mut days = 0u32;
        let mut i = 0;
        while i < y { days += if leap(i) { 366 } else { 365 }; i += 1; }
        let mut j = 0;
        while j < m { days += mdays(j, y); j += 1; }
        days += d;
        (6 + days) % 7
    }
    fn fields(v: u32) -> (u32, u32, u32, u32, u32, u32) {
        (v & 63, (v >> 6) & 31, (v >> 11) & 7, (v >> 14) & 63, (v >> 20) & 15, (v >> 24) & 255)
    }
    fn spec(v: u32) -> bool {
        let (minutes, hours, wd, md, mo, y) = fields(v);
        minutes < 60 && hours < 24 && mo < 12 && md < mdays(mo, y) && wd < 7 && wd == ref_weekday(y, mo, md)
    }
    fn wd_index(w: Weekday) -> u32 {
        match w { Weekday::Sunday => 0, Weekday::Monday => 1, Weekday::Tuesday => 2, Weekday::Wednesday => 3,
                  Weekday::Thursday => 4, Weekday::Friday => 5, Weekday::Saturday => 6 }
    }

    /// accepted  =>  calendar-valid   (no invalid instant is accepted)
    #[kani::proof]
    #[kani::unwind(258)]
    fn accepts_only_valid() {
        let v: u32 = kani::any();
        let r = DateTime::try_from(v);
        let ok = r.is_ok();
        kani::cover!(ok, "some value is accepted");
        if ok { assert!(spec(v), "accepted value is not a real calendar instant"); }
    }

    /// calendar-valid  =>  accepted   (no valid instant is rejected)
    #[kani::proof]
    #[kani::unwind(258)]
    fn accepts_all_valid() {
        let v: u32 = kani::any();
        let r = DateTime::try_from(v);
        let ok = r.is_ok();
        kani::cover!(!ok, "some value is rejected");
        if spec(v) { assert!(ok, "real calendar instant rejected"); }
    }

    /// accepted  =>  as_int unchanged and every accessor returns its bit field
    #[kani::proof]
    #[kani::unwind(4)]
    fn accessors_invert() {
        let v: u32 = kani::any();
        let (minutes, hours, wd, md, mo, y) = fields(v);
        if let Ok(d) = DateTime::try_from(v) {
            kani::cover!(true, "accessor branch reached");
            assert!(d.as_int() == v, "integer form changed");
            assert!(d.minutes() as u32 == minutes, "minutes accessor");
            assert!(d.hours() as u32 == hours, "hours accessor");
            assert!(wd_index(d.weekday()) == wd, "weekday accessor");
            assert!(d.month_day() as u32 == md, "month_day accessor");
            assert!(d.month().iso8601() == mo + 1, "month accessor");
            assert!(d.years_after_2000() as u32 == y, "year accessor");
            let again = DateTime::new(d.years_after_2000(), d.month(), d.month_day(), d.weekday(), d.hours(), d.minutes());
            assert!(again.as_int() == v, "new(accessors) does not rebuild the value");
        }
    }
}
