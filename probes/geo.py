import z3, time, struct, math
F=z3.Float32(); RM=z3.RNE()
def fv(n): return z3.FP(n,F)
px,py,pz,sx,sy,sz,L,W,H,s,c = [fv(n) for n in 'px py pz sx sy sz L W H s c'.split()]
def fin(x, lo=-20000.0, hi=20000.0):
    return z3.And(z3.Not(z3.fpIsNaN(x)), z3.Not(z3.fpIsInf(x)), z3.fpGEQ(x, z3.FPVal(lo,F)), z3.fpLEQ(x, z3.FPVal(hi,F)))
def impl(sign_y):
    dxp = z3.fpSub(RM,px,sx); dyp = z3.fpSub(RM,py,sy)
    rx = z3.fpSub(RM, z3.fpAdd(RM, sx, z3.fpMul(RM,dxp,c)), z3.fpMul(RM,dyp,s))
    t = z3.fpAdd(RM, sy, z3.fpMul(RM,dyp,c))
    ry = (z3.fpAdd if sign_y>0 else z3.fpSub)(RM, t, z3.fpMul(RM,dxp,s))
    dx = z3.fpSub(RM,rx,sx); dy=z3.fpSub(RM,ry,sy); dz=z3.fpSub(RM,pz,sz)
    two=z3.FPVal(2.0,F)
    out = z3.Or(z3.fpGT(z3.fpAbs(dx), z3.fpAdd(RM, z3.fpDiv(RM,L,two), two)),
                z3.fpGT(z3.fpAbs(dy), z3.fpAdd(RM, z3.fpDiv(RM,W,two), two)),
                z3.fpGT(z3.fpAbs(dz), z3.fpAdd(RM, z3.fpDiv(RM,H,two), two)))
    return z3.Not(out)
sol=z3.Solver()
for v in (px,py,pz,sx,sy,sz): sol.add(fin(v))
for v in (L,W,H): sol.add(fin(v,0.0,1000.0))
# concrete yaw: s,c from libm-ish (python double -> f32)
yaw=0.7
rot=struct.unpack('f',struct.pack('f',2*math.pi))[0]-yaw
sv=struct.unpack('f',struct.pack('f',math.sin(rot)))[0]; cv=struct.unpack('f',struct.pack('f',math.cos(rot)))[0]
sol.add(s==z3.FPVal(sv,F), c==z3.FPVal(cv,F))
sol.add(impl(-1)!=impl(+1))
t=time.time(); r=sol.check(); print(r, time.time()-t)
if r==z3.sat:
    m=sol.model(); print({str(d):m[d] for d in m.decls()})
# and self-equivalence (impl == impl) as unsat baseline: the tree version equals a reference written with '+'? check unsat query cost
sol2=z3.Solver()
for v in (px,py,pz,sx,sy,sz): sol2.add(fin(v))
for v in (L,W,H): sol2.add(fin(v,0.0,1000.0))
sol2.add(s==z3.FPVal(sv,F), c==z3.FPVal(cv,F))
# reference computed with different association: dy' = dyp*c + dxp*s (without adding/subtracting sy)
dxp = z3.fpSub(RM,px,sx); dyp = z3.fpSub(RM,py,sy)
sol2.set('timeout',120000)
sol2.add(impl(+1)!=impl(+1))
t=time.time(); print(sol2.check(), time.time()-t)
