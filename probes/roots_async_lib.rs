use std::pin::Pin;
use std::task::{Context, Poll};
use std::future::Future;
use tokio::io::{AsyncRead, ReadBuf};
use wow_login_messages::helper::{tokio_expect_client_message, expect_client_message};
use wow_login_messages::version_2::CMD_XFER_RESUME as X;
use wow_login_messages::errors::ExpectedOpcodeError;

pub struct Abs { pub pos: usize }
impl AsyncRead for Abs {
    fn poll_read(self: Pin<&mut Self>, _cx: &mut Context<'_>, _buf: &mut ReadBuf<'_>) -> Poll<std::io::Result<()>> { Poll::Pending }
}
pub fn root_async(rd: &mut Abs, cx: &mut Context<'_>) -> Result<X, ExpectedOpcodeError> {
    let fut = tokio_expect_client_message::<X, _>(rd);
    let mut fut = std::pin::pin!(fut);
    loop { if let Poll::Ready(v) = fut.as_mut().poll(cx) { return v; } }
}
pub fn root_sync(mut r: &[u8]) -> Result<X, ExpectedOpcodeError> { expect_client_message::<X, _>(&mut r) }
