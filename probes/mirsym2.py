#!/usr/bin/env python3
"""Feasibility probe: symbolic executor for rustc_public MIR JSON (mirdump) with z3.
Explicit-stack interpreter; forks on undecided branches; std container API is modelled."""
import json, sys, copy, time
import z3

class Cell:
    __slots__ = ('val',)
    def __init__(self, val=None): self.val = val
class Agg:
    __slots__ = ('f',)
    def __init__(self, f): self.f = f
    def __repr__(self): return 'Agg(%r)' % (self.f,)
class EnumV:
    __slots__ = ('d', 'f')
    def __init__(self, d, f): self.d = d; self.f = f
    def __repr__(self): return 'Enum#%r(%r)' % (self.d, self.f)
class SymEnum:
    # alts: list of (cond, variant_index, fields); conds are mutually exclusive and exhaustive under pc
    __slots__ = ('alts',)
    def __init__(self, alts): self.alts = alts
    def __repr__(self): return 'SymEnum(%r)' % ([(a[1]) for a in self.alts],)
class CannotMerge(Exception): pass
def merge_vals(pairs):
    # pairs: list of (cond, value); returns one value
    vals = [v for _, v in pairs]
    if len(pairs) == 1: return vals[0]
    v0 = vals[0]
    if all(z3.is_expr(v) for v in vals):
        r = vals[-1]
        for c, v in reversed(pairs[:-1]): r = z3.If(c, v, r)
        return z3.simplify(r)
    if all(isinstance(v, Agg) for v in vals) and len(set(len(v.f) for v in vals)) == 1:
        return Agg([merge_vals([(c, v.f[i]) for c, v in pairs]) for i in range(len(v0.f))])
    if all(isinstance(v, (EnumV, SymEnum)) for v in vals):
        flat = []
        for c, v in pairs:
            if isinstance(v, EnumV): flat.append((c, v.d, v.f))
            else: flat.extend((z3.And(c, c2), d, f) for c2, d, f in v.alts)
        byv = {}
        for c, d, f in flat: byv.setdefault(d, []).append((c, f))
        alts = []
        for d, lst in byv.items():
            n = len(lst[0][1])
            fields = [merge_vals([(c, f[i]) for c, f in lst]) for i in range(n)]
            alts.append((z3.simplify(z3.Or(*[c for c, _ in lst])), d, fields))
        if len(alts) == 1: return EnumV(alts[0][1], alts[0][2])
        return SymEnum(alts)
    if all(isinstance(v, Opaque) for v in vals): return v0
    raise CannotMerge()
class Ref:
    __slots__ = ('cell', 'path')
    def __init__(self, cell, path): self.cell = cell; self.path = path
class SliceRef:
    __slots__ = ('lst', 'start', 'len')
    def __init__(self, lst, start, ln): self.lst = lst; self.start = start; self.len = ln
class VecV:
    __slots__ = ('lst',)
    def __init__(self, lst): self.lst = lst
class StrV:
    __slots__ = ('vec',)
    def __init__(self, vec): self.vec = vec
class IterV:
    __slots__ = ('lst', 'a', 'b')
    def __init__(self, lst, a, b): self.lst = lst; self.a = a; self.b = b
class CoroV:
    # coroutine state machine value: upvars, state discriminant, per-variant saved locals
    def __init__(self, ty, up): self.ty = ty; self.up = up; self.state = 0; self.saved = {}
class RExV:
    def __init__(self, reader, buf): self.reader = reader; self.buf = buf; self.filled = 0
class Opaque:
    def __init__(self, what): self.what = what
    def __repr__(self): return 'Opaque(%s)' % self.what
UNIT = Agg([])

class Panic(Exception): pass
class Unsupported(Exception): pass

class Frame:
    def __init__(self, fn, locs, dest, ret_bb):
        self.fn = fn; self.locs = locs; self.bb = 0; self.dest = dest; self.ret_bb = ret_bb

class State:
    def __init__(self): self.frames = []; self.pc = []; self.result = None; self.status = 'run'; self.trace = []; self.env = {}

class Prog:
    def __init__(self, path):
        self.tys = {}; self.adts = {}; self.fns = {}; self.byname = {}; self.allocs = {}; self.vimpl = {}
        for l in open(path):
            r = json.loads(l)
            if r['k'] == 'ty': self.tys[r['id']] = r
            elif r['k'] == 'adt': self.adts[r['ty']] = r
            elif r['k'] == 'fn': self.fns[r['key']] = r; self.byname[r['name']] = r
            elif r['k'] == 'alloc': self.allocs[r['id']] = r
            elif r['k'] == 'vimpl': self.vimpl[(r['trait_fn'], r['self_ty'])] = r['key']
    def tk(self, ty):
        k = self.tys[ty]['kind']
        return k.get('RigidTy') if isinstance(k, dict) else k
    def int_info(self, ty):
        r = self.tk(ty)
        if isinstance(r, dict):
            if 'Uint' in r: return (self.tys[ty]['size'] * 8, False)
            if 'Int' in r: return (self.tys[ty]['size'] * 8, True)
        if r == 'Bool': return ('bool', False)
        if r == 'Char': return (32, False)
        return None

def simp(x):
    return z3.simplify(x) if z3.is_expr(x) else x
def concrete(x):
    x = simp(x)
    if z3.is_bv_value(x): return x.as_long()
    if z3.is_true(x): return 1
    if z3.is_false(x): return 0
    return None

class Exec:
    def __init__(self, prog):
        self.p = prog; self.solver = z3.Solver(); self.merge_calls = True; self.stats = {'forks': 0, 'checks': 0, 'steps': 0}
    # ---- places
    def resolve(self, st, fr, place):
        cell = fr.locs[place['local']]; path = []
        special = None  # SliceRef deref
        for pe in place['projection']:
            if pe == 'Deref':
                v = self.read(cell, path, special); special = None
                if isinstance(v, Ref): cell, path = v.cell, list(v.path)
                elif isinstance(v, SliceRef): special = v; cell = None; path = []
                else: raise Unsupported('deref of %r' % (v,))
            elif 'Field' in pe: path = path + [pe['Field'][0]]
            elif 'Downcast' in pe: path = path + [('dc', pe['Downcast'])]
            elif 'Index' in pe:
                i = concrete(fr.locs[pe['Index']].val)
                if i is None: raise Unsupported('symbolic index')
                path = path + [i]
            elif 'ConstantIndex' in pe: path = path + [pe['ConstantIndex']['offset']]
            else: raise Unsupported('proj %r' % (pe,))
        return cell, path, special
    def read(self, cell, path, special=None):
        if special is not None:
            if not path: return special
            return special.lst[special.start + path[0]]
        v = cell.val; pend = None
        for p in path:
            if isinstance(p, tuple):
                if isinstance(v, SymEnum):
                    m = [a for a in v.alts if a[1] == p[1]]
                    v = EnumV(p[1], m[0][2])
                if isinstance(v, CoroV): pend = p[1]
                continue
            if isinstance(v, CoroV):
                v = v.saved[(pend, p)] if pend is not None else v.up[p]; pend = None
            elif isinstance(v, (Agg, EnumV)): v = v.f[p]
            elif isinstance(v, Ref): pass   # Box/Unique/NonNull wrappers around a modelled Box pointer are transparent
            elif isinstance(v, StrV) and p == 0: v = v.vec
            else: raise Unsupported('read path %r in %r' % (p, v))
        return v
    def write(self, cell, path, val, special=None):
        if special is not None:
            special.lst[special.start + path[0]] = val; return
        if not [p for p in path if not isinstance(p, tuple)]: cell.val = val; return
        v = cell.val; pend = None
        for p in path[:-1]:
            if isinstance(p, tuple):
                if isinstance(v, CoroV): pend = p[1]
                continue
            if isinstance(v, CoroV):
                v = v.saved[(pend, p)] if pend is not None else v.up[p]; pend = None
            else: v = v.f[p]
        last = path[-1]
        if isinstance(v, CoroV):
            if pend is not None: v.saved[(pend, last)] = val
            else: v.up[last] = val
        else: v.f[last] = val
    def clone(self, v):
        if isinstance(v, (CoroV, RExV)): return v
        if isinstance(v, Agg): return Agg([self.clone(x) for x in v.f])
        if isinstance(v, EnumV): return EnumV(v.d, [self.clone(x) for x in v.f])
        if isinstance(v, SymEnum): return SymEnum([(c, d, [self.clone(x) for x in f]) for c, d, f in v.alts])
        return v
    # ---- operands
    def const(self, c):
        ty = c['const_']['ty']; kind = c['const_']['kind']
        ii = self.p.int_info(ty)
        if kind == 'ZeroSized': return Opaque('zst:%s' % self.p.tys[ty]['str'])
        if isinstance(kind, dict) and 'Allocated' in kind:
            bs = kind['Allocated']['bytes']
            if ii:
                n = int.from_bytes(bytes(bs), 'little')
                return z3.BoolVal(n != 0) if ii[0] == 'bool' else z3.BitVecVal(n, ii[0])
            r = self.p.tk(ty)
            if isinstance(r, dict) and 'Adt' in r and not bs: return Agg([])
            ptrs = kind['Allocated']['provenance']['ptrs']
            if ptrs:
                if isinstance(r, dict) and 'Ref' in r and len(ptrs) == 1:
                    inner = r['Ref'][1]; a = self.p.allocs[ptrs[0][1]]
                    ir = self.p.tk(inner)
                    if 'mem' in a and not (ir == 'Str' or (isinstance(ir, dict) and 'Slice' in ir)):
                        return Ref(Cell(self.from_bytes(inner, a['mem']['bytes'], a['mem']['provenance']['ptrs'])), [])
                    if 'mem' in a:
                        lst = [z3.BitVecVal(b, 8) for b in a['mem']['bytes']]; return SliceRef(lst, 0, len(lst))
                if isinstance(r, dict) and 'Adt' in r and self.p.adts[ty]['name'] == 'std::option::Option' and len(ptrs) == 1:
                    fty = self.p.adts[ty]['variants'][1]['fields'][0]['ty']; a = self.p.allocs[ptrs[0][1]]
                    inner = self.p.tk(fty)['Ref'][1]
                    return EnumV(1, [Ref(Cell(self.from_bytes(inner, a['mem']['bytes'])), [])])
                return Opaque('ptrconst:%s' % self.p.tys[ty]['str'])
            return self.from_bytes(ty, bs)
        raise Unsupported('const %r' % (kind,))
    def from_bytes(self, ty, bs, ptrs=None):
        r0 = self.p.tk(ty)
        if ptrs and isinstance(r0, dict) and 'Adt' in r0 and self.p.adts[ty]['name'] == 'std::option::Option' and len(ptrs) == 1:
            fty = self.p.adts[ty]['variants'][1]['fields'][0]['ty']; a = self.p.allocs[ptrs[0][1]]
            inner = self.p.tk(fty)['Ref'][1]
            return EnumV(1, [Ref(Cell(self.from_bytes(inner, a['mem']['bytes'])), [])])
        ii = self.p.int_info(ty)
        if ii:
            n = int.from_bytes(bytes(bs), 'little')
            return z3.BoolVal(n != 0) if ii[0] == 'bool' else z3.BitVecVal(n, ii[0])
        r = self.p.tk(ty)
        if isinstance(r, dict) and 'Adt' in r:
            adt = self.p.adts[ty]
            if adt['adt_kind'] == 'struct':
                fs = []; offs = self.p.tys[ty]['fields']
                offs = [o['num_bits'] // 8 for o in offs['Arbitrary']['offsets']] if isinstance(offs, dict) and 'Arbitrary' in offs else None
                for i, f in enumerate(adt['variants'][0]['fields']):
                    sz = self.p.tys[f['ty']]['size']; off = offs[i]; fs.append(self.from_bytes(f['ty'], bs[off:off + sz]))
                return Agg(fs)
        if isinstance(r, dict) and 'Tuple' in r and not r['Tuple']: return Agg([])
        if isinstance(r, dict) and 'Array' in r:
            et = r['Array'][0]; sz = self.p.tys[et]['size']
            return Agg([self.from_bytes(et, bs[i:i + sz]) for i in range(0, len(bs), sz)]) if sz else Agg([])
        return Opaque('bytes:%s' % self.p.tys[ty]['str'])
    def operand(self, st, fr, op):
        if 'Constant' in op: return self.const(op['Constant'])
        if 'RuntimeChecks' in op: return z3.BoolVal(False)
        pl = op.get('Copy') or op.get('Move')
        cell, path, sp = self.resolve(st, fr, pl)
        return self.clone(self.read(cell, path, sp))
    # ---- rvalues
    def rvalue(self, st, fr, rv, dest_ty):
        if 'Use' in rv: return self.operand(st, fr, rv['Use'][0] if isinstance(rv['Use'], list) else rv['Use'])
        if 'Ref' in rv or 'AddressOf' in rv:
            pl = (rv.get('Ref') or rv.get('AddressOf'))[-1]
            cell, path, sp = self.resolve(st, fr, pl)
            if sp is not None:
                return sp if not path else Ref(Cell(Agg(sp.lst)), [sp.start + path[0]])
            return Ref(cell, path)
        if 'Aggregate' in rv:
            kind, ops = rv['Aggregate']; vals = [self.operand(st, fr, o) for o in ops]
            if isinstance(kind, dict) and 'Coroutine' in kind: return CoroV(dest_ty, vals)
            if isinstance(kind, dict) and 'Adt' in kind:
                adt_id, variant = kind['Adt'][0], kind['Adt'][1]
                adt = self.p.adts[dest_ty]
                if adt['adt_kind'] == 'enum': return EnumV(variant, vals)
                return Agg(vals)
            return Agg(vals)
        if 'Repeat' in rv:
            v = self.operand(st, fr, rv['Repeat'][0]); n = self.p.tk(dest_ty)['Array'][1]
            n = int.from_bytes(bytes(n['kind']['Value'][1]['bytes']), 'little')
            return Agg([self.clone(v) for _ in range(n)])
        if 'Discriminant' in rv:
            cell, path, sp = self.resolve(st, fr, rv['Discriminant']); v = self.read(cell, path, sp)
            w = self.p.int_info(dest_ty)[0]
            if isinstance(v, CoroV): return z3.BitVecVal(v.state, w)
            adt = self.p.adts[self.place_ty(fr, rv['Discriminant'])]
            if isinstance(v, SymEnum):
                r = z3.BitVecVal(int(adt['variants'][v.alts[-1][1]]['discr']), w)
                for c, d, _ in reversed(v.alts[:-1]): r = z3.If(c, z3.BitVecVal(int(adt['variants'][d]['discr']), w), r)
                return simp(r)
            if isinstance(v, EnumV): return z3.BitVecVal(int(adt['variants'][v.d]['discr']), w)
            raise Unsupported('discriminant of %r' % (v,))
        if 'Cast' in rv:
            ck, op, ty = rv['Cast']; v = self.operand(st, fr, op)
            if ck == 'IntToInt':
                sw, ssigned = self.p.int_info(self.operand_ty(fr, op)); dw, _ = self.p.int_info(ty)
                if sw == 'bool': v = z3.If(v, z3.BitVecVal(1, 8), z3.BitVecVal(0, 8)); sw = 8
                if dw == sw: return v
                if dw < sw: return z3.Extract(dw - 1, 0, v)
                return z3.SignExt(dw - sw, v) if ssigned else z3.ZeroExt(dw - sw, v)
            if isinstance(ck, dict) and ck.get('PointerCoercion') == 'Unsize':
                if isinstance(v, Ref):
                    tgt = self.read(v.cell, v.path)
                    if isinstance(tgt, Agg): return SliceRef(tgt.f, 0, len(tgt.f))
                return v
            if ck in ('PtrToPtr', 'Transmute', 'Subtype'): return v
            raise Unsupported('cast %r' % (ck,))
        if 'BinaryOp' in rv or 'CheckedBinaryOp' in rv:
            checked = 'CheckedBinaryOp' in rv
            op, a, b = rv.get('BinaryOp') or rv.get('CheckedBinaryOp')
            ta = self.operand_ty(fr, a); ii = self.p.int_info(ta)
            x = self.operand(st, fr, a); y = self.operand(st, fr, b)
            signed = ii[1] if ii else False
            if ii and ii[0] == 'bool':
                table = {'Eq': lambda: x == y, 'Ne': lambda: x != y, 'BitAnd': lambda: z3.And(x, y), 'BitOr': lambda: z3.Or(x, y), 'BitXor': lambda: z3.Xor(x, y)}
                return simp(table[op]())
            w = ii[0]
            if op in ('Shl', 'Shr', 'ShlUnchecked', 'ShrUnchecked') and y.size() != w:
                y = z3.ZeroExt(w - y.size(), y) if y.size() < w else z3.Extract(w - 1, 0, y)
            if op in ('Add', 'AddUnchecked'): r = x + y
            elif op in ('Sub', 'SubUnchecked'): r = x - y
            elif op in ('Mul', 'MulUnchecked'): r = x * y
            elif op == 'BitAnd': r = x & y
            elif op == 'BitOr': r = x | y
            elif op == 'BitXor': r = x ^ y
            elif op in ('Shl', 'ShlUnchecked'): r = x << y
            elif op in ('Shr', 'ShrUnchecked'): r = (x >> y) if signed else z3.LShR(x, y)
            elif op == 'Div': r = (x / y) if signed else z3.UDiv(x, y)
            elif op == 'Rem': r = z3.SRem(x, y) if signed else z3.URem(x, y)
            elif op == 'Eq': return simp(x == y)
            elif op == 'Ne': return simp(x != y)
            elif op == 'Lt': return simp((x < y) if signed else z3.ULT(x, y))
            elif op == 'Le': return simp((x <= y) if signed else z3.ULE(x, y))
            elif op == 'Gt': return simp((x > y) if signed else z3.UGT(x, y))
            elif op == 'Ge': return simp((x >= y) if signed else z3.UGE(x, y))
            else: raise Unsupported('binop %s' % op)
            r = simp(r)
            if not checked: return r
            if op == 'Add': ov = z3.Not(z3.BVAddNoOverflow(x, y, signed)) if not signed else z3.Or(z3.Not(z3.BVAddNoOverflow(x, y, True)), z3.Not(z3.BVAddNoUnderflow(x, y)))
            elif op == 'Sub': ov = z3.Not(z3.BVSubNoUnderflow(x, y, signed)) if not signed else z3.Or(z3.Not(z3.BVSubNoOverflow(x, y)), z3.Not(z3.BVSubNoUnderflow(x, y, True)))
            elif op == 'Mul': ov = z3.Not(z3.BVMulNoOverflow(x, y, signed))
            else: ov = z3.BoolVal(False)
            return Agg([r, simp(ov)])
        if 'UnaryOp' in rv:
            op, a = rv['UnaryOp']; x = self.operand(st, fr, a)
            if op == 'Not': return simp(z3.Not(x)) if z3.is_bool(x) else simp(~x)
            if op == 'Neg': return simp(-x)
            if op == 'PtrMetadata':
                if isinstance(x, SliceRef): return z3.BitVecVal(x.len, 64)
            raise Unsupported('unop %s' % op)
        if 'Len' in rv:
            cell, path, sp = self.resolve(st, fr, rv['Len'])
            v = self.read(cell, path, sp)
            return z3.BitVecVal(v.len if isinstance(v, SliceRef) else len(v.f), 64)
        if 'CopyForDeref' in rv:
            cell, path, sp = self.resolve(st, fr, rv['CopyForDeref']); return self.read(cell, path, sp)
        raise Unsupported('rvalue %r' % (list(rv.keys()),))
    def place_ty(self, fr, place):
        ty = fr.fn['body']['locals'][place['local']]['ty']
        for pe in place['projection']:
            if pe == 'Deref':
                r = self.p.tk(ty); ty = (r.get('Ref') or r.get('RawPtr'))[1] if 'Ref' in r else r['RawPtr'][0]
            elif 'Field' in pe: ty = pe['Field'][1]
            elif 'Downcast' in pe: pass
            elif 'Index' in pe or 'ConstantIndex' in pe:
                r = self.p.tk(ty); ty = (r.get('Array') or [r.get('Slice')])[0]
        return ty
    def operand_ty(self, fr, op):
        if 'Constant' in op: return op['Constant']['const_']['ty']
        if 'RuntimeChecks' in op: return [k for k, v in self.p.tys.items() if v['str'] == 'bool'][0]
        return self.place_ty(fr, op.get('Copy') or op.get('Move'))
    # ---- feasibility
    def feasible(self, st, cond):
        self.stats['checks'] += 1
        self.solver.push()
        for c in st.pc: self.solver.add(c)
        self.solver.add(cond)
        r = self.solver.check(); self.solver.pop()
        return r == z3.sat
    # ---- calls
    def enter(self, st, fn, args, dest, ret_bb):
        body = fn['body']; locs = [Cell(None) for _ in body['locals']]
        for i, a in enumerate(args): locs[1 + i].val = a
        st.frames.append(Frame(fn, locs, dest, ret_bb))
    def finish_call(self, st, fr, dest, target, val):
        cell, path, sp = self.resolve(st, fr, dest); self.write(cell, path, val, sp)
        if target is None: st.status = 'diverged'
        else: fr.bb = target
    def deref_to(self, v, cls):
        seen = 0
        while isinstance(v, Ref) and seen < 8:
            v = self.read(v.cell, v.path); seen += 1
        if not isinstance(v, cls): raise Unsupported('expected %s got %r' % (cls, v))
        return v
    def mk_result(self, ok, val): return EnumV(0 if ok else 1, [val])
    def model(self, st, fr, name, args, dest_ty):
        B64 = lambda n: z3.BitVecVal(n, 64)
        if name.startswith('std::vec::Vec::<') and name.endswith('::with_capacity') or name.endswith('>::new') and name.startswith('std::vec::Vec::<'): return VecV([])
        if name.startswith('std::vec::Vec::<') and name.endswith('::push'):
            self.deref_to(args[0], VecV).lst.append(args[1]); return UNIT
        if name.startswith('std::vec::Vec::<') and name.endswith('::len'): return B64(len(self.deref_to(args[0], VecV).lst))
        if name == 'std::string::String::from_utf8':
            for b in args[0].lst: st.pc.append(z3.ULT(b, 0x80))   # probe: restrict to ASCII
            return self.mk_result(True, StrV(args[0]))
        if name == 'std::string::String::as_bytes':
            s = self.deref_to(args[0], StrV); return SliceRef(s.vec.lst, 0, len(s.vec.lst))
        if name == 'std::string::String::len': return B64(len(self.deref_to(args[0], StrV).vec.lst))
        if name.startswith('core::slice::<impl [') and name.endswith(']>::iter'):
            s = args[0]; return IterV(s.lst, s.start, s.start + s.len)
        if name.endswith('as std::iter::DoubleEndedIterator>::next_back'):
            it = self.deref_to(args[0], IterV)
            if it.a == it.b: return EnumV(0, [])
            it.b -= 1; return EnumV(1, [Ref(Cell(Agg(it.lst)), [it.b])])
        if name.endswith('as std::iter::Iterator>::next') and 'slice::Iter' in name:
            it = self.deref_to(args[0], IterV)
            if it.a == it.b: return EnumV(0, [])
            it.a += 1; return EnumV(1, [Ref(Cell(Agg(it.lst)), [it.a - 1])])
        if name.startswith('std::io::impls::<impl std::io::Read for &') and name.endswith('[u8]>::read_exact'):
            rd = args[0]; cur = self.read(rd.cell, rd.path); buf = args[1]
            while isinstance(cur, Ref): rd = cur; cur = self.read(rd.cell, rd.path)
            if cur.len < buf.len:
                self.write(rd.cell, rd.path, SliceRef(cur.lst, cur.start + cur.len, 0))
                return self.mk_result(False, Opaque('io::Error(UnexpectedEof)'))
            for i in range(buf.len): buf.lst[buf.start + i] = cur.lst[cur.start + i]
            self.write(rd.cell, rd.path, SliceRef(cur.lst, cur.start + buf.len, cur.len - buf.len))
            return self.mk_result(True, UNIT)
        if name == 'std::io::impls::<impl std::io::Write for std::vec::Vec<u8>>::write_all':
            v = self.deref_to(args[0], VecV); s = args[1]
            v.lst.extend(s.lst[s.start:s.start + s.len]); return self.mk_result(True, UNIT)
        if name.startswith('core::num::<impl ') and name.endswith('::to_le_bytes'):
            x = args[0]; return Agg([simp(z3.Extract(8 * i + 7, 8 * i, x)) for i in range(x.size() // 8)])
        if name.startswith('core::num::<impl ') and name.endswith('::from_le_bytes'):
            bs = args[0].f; return simp(z3.Concat(*reversed(bs))) if len(bs) > 1 else bs[0]
        if name.startswith('tokio::io::util::read_exact::read_exact::<'): return RExV(args[0], args[1])
        if name.endswith('as std::future::IntoFuture>::into_future') and isinstance(args[0], RExV): return args[0]
        if name.startswith('<tokio::io::util::read_exact::ReadExact<') and name.endswith('as std::future::Future>::poll'):
            rx = self.read(args[0].f[0].cell, args[0].f[0].path); env = st.env
            while True:
                need = rx.buf.len - rx.filled
                if need == 0: return EnumV(0, [self.mk_result(True, z3.BitVecVal(rx.buf.len, 64))])
                ch = env['sched'].pop(0) if env['sched'] else 'ALL'
                if ch == 'P': return EnumV(1, [])
                avail = len(env['data']) - env['pos']
                if avail == 0: return EnumV(0, [self.mk_result(False, Opaque('io::Error(UnexpectedEof)'))])
                k = min(need, avail, 10**9 if ch == 'ALL' else ch)
                for i in range(k): rx.buf.lst[rx.buf.start + rx.filled + i] = env['data'][env['pos'] + i]
                rx.filled += k; env['pos'] += k
        if name.startswith('std::boxed::Box::<') and name.endswith('::pin'):
            c = Cell(args[0]); return Agg([Ref(c, [])])
        if name.startswith('std::intrinsics::bitreverse::<'):
            x = args[0]; n = x.size(); return simp(z3.Concat(*[z3.Extract(i, i, x) for i in range(n)]))
        if name.startswith('std::fmt::'): return Opaque('fmt')
        if name.startswith('core::panicking::') or name.startswith('std::rt::panic'): raise Panic(name)
        raise Unsupported('no model for ' + name)
    def is_pure_sig(self, callee):
        b = callee['body']
        for l in b['locals'][1:1 + callee['arg_count']]:
            r = self.p.tk(l['ty'])
            if self.p.int_info(l['ty']): continue
            if isinstance(r, dict) and 'Ref' in r and r['Ref'][2] == 'Not':
                inner = self.p.tk(r['Ref'][1])
                if self.p.int_info(r['Ref'][1]) or (isinstance(inner, dict) and 'Adt' in inner and self.p.adts[r['Ref'][1]]['adt_kind'] == 'enum' and all(not v['fields'] for v in self.p.adts[r['Ref'][1]]['variants'])): continue
            return False
        rr = self.p.tk(b['locals'][0]['ty'])
        return not (isinstance(rr, dict) and ('Ref' in rr or 'RawPtr' in rr))
    # ---- main loop
    def run(self, st0, max_steps=200000):
        work = [st0]; done = []
        while work:
            st = work.pop()
            try:
                while st.status == 'run':
                    self.stats['steps'] += 1
                    if self.stats['steps'] > max_steps: raise Unsupported('step budget')
                    fr = st.frames[-1]; blk = fr.fn['body']['blocks'][fr.bb]
                    for s in blk['statements']:
                        k = s['kind']
                        if isinstance(k, dict) and 'Assign' in k:
                            pl, rv = k['Assign']
                            val = self.rvalue(st, fr, rv, self.place_ty(fr, pl))
                            cell, path, sp = self.resolve(st, fr, pl); self.write(cell, path, val, sp)
                        elif isinstance(k, dict) and 'SetDiscriminant' in k:
                            cell, path, sp = self.resolve(st, fr, k['SetDiscriminant']['place']); v = self.read(cell, path, sp)
                            if isinstance(v, CoroV): v.state = k['SetDiscriminant']['variant_index']
                            else: raise Unsupported('SetDiscriminant on %r' % (v,))
                    t = blk['terminator']['kind']
                    if t == 'Return':
                        rv = fr.locs[0].val; st.frames.pop()
                        if not st.frames: st.result = rv; st.status = 'ret'; break
                        caller = st.frames[-1]; self.finish_call(st, caller, fr.dest, fr.ret_bb, rv)
                    elif t == 'Unreachable': st.status = 'unreachable'
                    elif 'Goto' in t: fr.bb = t['Goto']['target']
                    elif 'Drop' in t: fr.bb = t['Drop']['target']
                    elif 'SwitchInt' in t:
                        d = self.operand(st, fr, t['SwitchInt']['discr']); tg = t['SwitchInt']['targets']
                        c = concrete(d)
                        if c is not None:
                            fr.bb = next((b for v, b in tg['branches'] if v == c), tg['otherwise'])
                        else:
                            alts = []; neg = []
                            for v, b in tg['branches']:
                                cond = (d == z3.BitVecVal(v, d.size())) if z3.is_bv(d) else (d if v else z3.Not(d))
                                alts.append((cond, b)); neg.append(z3.Not(cond))
                            alts.append((z3.And(*neg), tg['otherwise']))
                            live = [(c_, b) for c_, b in alts if self.feasible(st, c_)]
                            self.stats['forks'] += max(0, len(live) - 1)
                            for c_, b in live[1:]:
                                s2 = copy.deepcopy(st); s2.pc.append(c_); s2.frames[-1].bb = b; work.append(s2)
                            st.pc.append(live[0][0]); fr.bb = live[0][1]
                    elif 'Assert' in t:
                        a = t['Assert']; c = self.operand(st, fr, a['cond']); want = a['expected']
                        bad = z3.Not(c) if want else c
                        if self.feasible(st, bad):
                            s2 = copy.deepcopy(st); s2.pc.append(bad); s2.status = 'panic:assert:%s' % (list(a['msg'].keys())[0] if isinstance(a['msg'], dict) else a['msg']); done.append(s2)
                        st.pc.append(z3.Not(bad)); fr.bb = a['target']
                    elif 'Call' in t:
                        c = t['Call']; info = fr.fn['calls'].get(str(fr.bb))
                        if info is None: raise Unsupported('indirect call')
                        callee = self.p.fns[info['key']]; args = [self.operand(st, fr, a) for a in c['args']]
                        if callee['body'] is None and callee['kind'] == 'virtual':
                            tgt = self.read(args[0].f[0].cell, args[0].f[0].path)
                            vi = self.p.vimpl[(info['trait_fn'], tgt.ty)]
                            self.enter(st, self.p.fns[vi], args, c['destination'], c['target']); continue
                        if callee['body'] is None:
                            val = self.model(st, fr, callee['name'], args, self.place_ty(fr, c['destination']))
                            self.finish_call(st, fr, c['destination'], c['target'], val)
                        else:
                            if 'closure' in callee['name'] and len(callee['body']['locals']) - 1 >= 2 and len(args) == 2 and isinstance(args[1], Agg) and callee['arg_count'] != len(args):
                                args = [args[0]] + args[1].f   # rust-call ABI: untuple
                            if self.merge_calls and self.is_pure_sig(callee):
                                sub = State(); sub.pc = list(st.pc); self.enter(sub, callee, args, None, None)
                                outs = self.run(sub, max_steps)
                                if all(o.status == 'ret' for o in outs):
                                    try:
                                        npc = len(st.pc)
                                        val = merge_vals([(z3.And(*o.pc[npc:]) if len(o.pc) > npc else z3.BoolVal(True), o.result) for o in outs])
                                        self.stats['merged'] = self.stats.get('merged', 0) + 1
                                        self.finish_call(st, fr, c['destination'], c['target'], val); continue
                                    except CannotMerge: pass
                            self.enter(st, callee, args, c['destination'], c['target'])
                    else: raise Unsupported('terminator %r' % (t,))
            except Panic as e: st.status = 'panic:%s' % e
            except Unsupported as e: st.status = 'unsupported:%s' % e
            done.append(st)
        return done
