import sys, time, z3, collections
sys.path.insert(0,'/tmp/drv')
from mirsym2 import *
t0=time.time(); P=Prog('/tmp/roots/dump_all.jsonl'); print('load', time.time()-t0)
name=sys.argv[1]; L=int(sys.argv[2])
ex=Exec(P)
buf=[z3.BitVec('b%d'%i,8) for i in range(L)]
st=State()
ex.enter(st, P.byname['roots::r_'+name], [SliceRef(buf,0,L), z3.BitVecVal(L,32)], None, None)
t=time.time(); res=ex.run(st)
c=collections.Counter()
for r in res:
    k=r.status
    if r.status=='ret': k='ret:'+('Ok' if r.result.d==0 else 'Err')
    c[k]+=1
print(name, L, 'paths', len(res), 'time', round(time.time()-t,2), ex.stats)
for k,v in c.most_common(): print('  ',v,k)
for r in res:
    if r.status.startswith('panic'):
        s=z3.Solver(); s.add(*r.pc); 
        if s.check()==z3.sat:
            m=s.model(); print('   witness', r.status, bytes([m.eval(b,model_completion=True).as_long() for b in buf]).hex()); break
