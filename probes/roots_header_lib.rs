use wow_world_messages::wrath::{SMSG_PONG, ServerMessage};
pub fn ws(m: &SMSG_PONG, w: &mut Vec<u8>) -> Result<(), std::io::Error> { m.write_unencrypted_server(w) }
