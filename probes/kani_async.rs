#[cfg(kani)]
mod proofs {
    use std::pin::Pin;
    use std::task::{Context, Poll, Waker};
    use std::future::Future;
    use tokio::io::{AsyncRead, ReadBuf};
    use wow_login_messages::helper::{expect_client_message, tokio_expect_client_message};
    use wow_login_messages::version_2::CMD_XFER_RESUME as X;
    use wow_login_messages::version_2::CMD_AUTH_RECONNECT_PROOF_Client as M;

    struct Chunked<'a> { data: &'a [u8], pos: usize, polls: u8 }
    impl<'a> AsyncRead for Chunked<'a> {
        fn poll_read(mut self: Pin<&mut Self>, _cx: &mut Context<'_>, buf: &mut ReadBuf<'_>) -> Poll<std::io::Result<()>> {
            // nondeterministic schedule: Pending (bounded) or deliver 1..=k bytes
            if self.polls < 3 && kani::any() { self.polls += 1; return Poll::Pending; }
            let rem = self.data.len() - self.pos;
            let want = buf.remaining();
            let mut n: usize = kani::any();
            kani::assume(n >= 1 && n <= 4);
            if n > rem { n = rem; }
            if n > want { n = want; }
            let p = self.pos;
            buf.put_slice(&self.data[p..p + n]);
            self.pos += n;
            Poll::Ready(Ok(()))
        }
    }

    fn block_on<F: Future>(f: F) -> F::Output {
        let mut f = Box::pin(f);
        let w = Waker::noop();
        let mut cx = Context::from_waker(&w);
        let mut i = 0;
        loop {
            if let Poll::Ready(v) = f.as_mut().poll(&mut cx) { return v; }
            i += 1;
            kani::assume(i < 16);
        }
    }

    #[kani::proof]
    #[kani::unwind(12)]
    fn xfer_resume_agree() {
        let mut data: [u8; 9] = kani::any();
        data[0] = 0x33;
        let len: usize = kani::any();
        kani::assume(len <= 9);
        let a = expect_client_message::<X, _>(&mut &data[..len]);
        let mut rd = Chunked { data: &data[..len], pos: 0, polls: 0 };
        let b = block_on(tokio_expect_client_message::<X, _>(&mut rd));
        match (a, b) {
            (Ok(x), Ok(y)) => { assert!(x == y); }
            (Err(e1), Err(e2)) => { std::mem::forget(e1); std::mem::forget(e2); }
            (Ok(_), Err(e)) => { std::mem::forget(e); assert!(false); }
            (Err(e), Ok(_)) => { std::mem::forget(e); assert!(false); }
        }
    }

    #[kani::proof]
    #[kani::unwind(70)]
    fn reconnect_proof_client_agree() {
        // opcode 0x03 + 16 + 20 + 20 + 1 = 58 bytes
        let mut data: [u8; 58] = kani::any();
        data[0] = 0x03;
        let len: usize = kani::any();
        kani::assume(len <= 58);
        let a = expect_client_message::<M, _>(&mut &data[..len]);
        let mut rd = Chunked { data: &data[..len], pos: 0, polls: 0 };
        let b = block_on(tokio_expect_client_message::<M, _>(&mut rd));
        match (a, b) {
            (Ok(x), Ok(y)) => { assert!(x == y); }
            (Err(e1), Err(e2)) => { std::mem::forget(e1); std::mem::forget(e2); }
            (Ok(_), Err(e)) => { std::mem::forget(e); assert!(false); }
            (Err(e), Ok(_)) => { std::mem::forget(e); assert!(false); }
        }
    }
}
