import sys, time, z3
sys.path.insert(0,'/tmp/drv')
from mirsym import *
t0=time.time()
P=Prog('/tmp/roots/dump.jsonl'); print('load', time.time()-t0)
ex=Exec(P)
nlen=2
name=[z3.BitVec('n%d'%i,8) for i in range(nlen)]
rest=[z3.BitVec('r%d'%i,8) for i in range(8)]
buf=name+[z3.BitVecVal(0,8)]+rest+[z3.BitVecVal(0,8)]
pre=[z3.And(b!=0, z3.ULT(b,0x80)) for b in name]
pre+= [z3.And(z3.UGE(rest[0],1), z3.ULE(rest[0],8)), z3.Or(*[rest[1]==v for v in (1,2,3,4,5,7,8,9,11)]), z3.ULE(rest[2],1)]
st=State(); st.pc=list(pre)
root=P.byname['roots::root_read']
ex.enter(st, root, [SliceRef(buf,0,len(buf)), z3.BitVecVal(len(buf),32)], None, None)
t=time.time(); res=ex.run(st); print('read paths', len(res), time.time()-t, ex.stats)
for r in res: print('  ', r.status, (r.result.d if isinstance(r.result,EnumV) else r.result))
oks=[r for r in res if r.status=='ret' and r.result.d==0]
assert len(oks)==len([r for r in res if r.status=='ret'])
viol=0
for r in oks:
    msg=r.result.f[0]
    out=VecV([])
    st2=State(); st2.pc=list(r.pc); st2.trace=[out, msg]
    ex.enter(st2, P.byname['roots::root_write'], [Ref(Cell(msg),[]), Ref(Cell(out),[])], None, None)
    res2=ex.run(st2)
    for w in res2:
        if w.status!='ret': print('   write status', w.status); viol+=1; continue
        s=z3.Solver(); s.add(*w.pc)
        out=w.trace[0]; msg=w.trace[1]
        if len(out.lst)!=len(buf): print('   LENGTH MISMATCH', len(out.lst)); viol+=1; continue
        s.add(z3.Or(*[a!=b for a,b in zip(out.lst,buf)]))
        c=s.check(); print('   roundtrip differs?', c)
        if c!=z3.unsat: viol+=1; print(s.model())
        st3=State(); st3.pc=list(w.pc)
        ex.enter(st3, P.byname['roots::root_size'], [Ref(Cell(msg),[])], None, None)
        for z in ex.run(st3):
            print('   size', z.status, simp(z.result) if z.status=='ret' else None)
print('violations', viol, 'total', time.time()-t0, ex.stats)
