#[cfg(kani)]
mod proofs {
    use wow_world_base::shared::datetime_vanilla_tbc_wrath::DateTime;

    fn leap(y: u32) -> bool { let y = y + 2000; (y % 4 == 0 && y % 100 != 0) || y % 400 == 0 }
    fn mdays(m: u32, y: u32) -> u32 { match m { 0|2|4|6|7|9|11 => 31, 3|5|8|10 => 30, 1 => if leap(y) {29} else {28}, _ => 0 } }
    // reference weekday: days since 2000-01-01 (Saturday); wire weekday 0 = Sunday
    fn ref_weekday(y: u32, m: u32, d: u32) -> u32 {
        let mut days = 0u32;
        let mut i = 0; while i < y { days += if leap(i) {366} else {365}; i += 1; }
        let mut j = 0; while j < m { days += mdays(j, y); j += 1; }
        days += d;
        (6 + days) % 7
    }

    #[kani::proof]
    #[kani::unwind(258)]
    fn datetime_iff() {
        let v: u32 = kani::any();
        let minutes = v & 63; let hours = (v >> 6) & 31; let wd = (v >> 11) & 7; let md = (v >> 14) & 63; let mo = (v >> 20) & 15; let y = (v >> 24) & 255;
        let spec_ok = minutes < 60 && hours < 24 && mo < 12 && md < mdays(mo, y) && wd < 7 && wd == ref_weekday(y, mo, md);
        match DateTime::try_from(v) {
            Ok(d) => { assert!(spec_ok); assert!(d.as_int() == v); assert!(d.minutes() as u32 == minutes); assert!(d.hours() as u32 == hours); assert!(d.month_day() as u32 == md); assert!(d.years_after_2000() as u32 == y); }
            Err(e) => { std::mem::forget(e); assert!(!spec_ok); }
        }
    }
}
