import sys, time, z3
sys.path.insert(0,'/tmp/drv')
import mirsym2
from mirsym2 import *
P=Prog('/tmp/roots4/dump.jsonl')
s=z3.BitVec('s',32)   # symbolic body size
class Ex2(Exec):
    def model(self, st, fr, name, args, dest_ty):
        if name.endswith('::saturating_sub'):
            a,b=args; return simp(z3.If(z3.ULT(a,b), z3.BitVecVal(0,a.size()), a-b))
        if name.endswith('::to_be_bytes'):
            x=args[0]; n=x.size()//8; return Agg([simp(z3.Extract(8*(n-1-i)+7, 8*(n-1-i), x)) for i in range(n)])
        if name.startswith('std::vec::Vec::<') and name.endswith('::len'):
            v=self.deref_to(args[0], VecV); return simp(z3.BitVecVal(len(v.lst),64)+z3.ZeroExt(32, st.env.get('tail', z3.BitVecVal(0,32))))
        return Exec.model(self, st, fr, name, args, dest_ty)
ex=Ex2(P)
# override: size_without_header -> s ; write_into_vec -> appends an opaque tail of s bytes
SW=[k for k,f in P.fns.items() if f['name'].endswith('as wow_world_messages::Message>::size_without_header')][0]
WV=[k for k,f in P.fns.items() if 'as wow_world_messages::Message>::write_into_vec' in f['name']][0]
P.fns[SW]['body']=None; P.fns[WV]['body']=None
orig=Ex2.model
def model2(self, st, fr, name, args, dest_ty):
    if name.endswith('::size_without_header'): return s
    if '::write_into_vec' in name: st.env['tail']=s; return self.mk_result(True, UNIT)
    return orig(self, st, fr, name, args, dest_ty)
Ex2.model=model2
out=VecV([]); sink=VecV([])
st=State(); st.trace=[sink]; st.pc=[z3.ULE(s, 0xFFFFFF-2)]
ex.enter(st, P.byname['roots::ws'], [Ref(Cell(Agg([z3.BitVec('pong',32)])),[]), Ref(Cell(sink),[])], None, None)
t=time.time(); res=ex.run(st)
print('paths',len(res), 'time', round(time.time()-t,2))
for r in res:
    sol=z3.Solver(); sol.add(*r.pc); c=sol.check()
    ex_s = sol.model().eval(s, model_completion=True).as_long() if c==z3.sat else None
    print('  ', r.status[:60], 'feasible', c, 'example body size', hex(ex_s) if ex_s is not None else None)
    if r.status.startswith('panic'):
        o=z3.Optimize(); o.add(*r.pc); o.minimize(z3.BV2Int(s)); o.check(); lo=o.model().eval(s).as_long()
        o=z3.Optimize(); o.add(*r.pc); o.maximize(z3.BV2Int(s)); o.check(); hi=o.model().eval(s).as_long()
        print('      panicking body sizes range', hex(lo), '..', hex(hi))
