#[cfg(kani)]
mod proofs {
    use wow_srp::vanilla_header::{EncrypterHalf, DecrypterHalf};

    #[repr(C)]
    struct Raw { key: [u8; 40], index: u8, prev: u8 }

    #[kani::proof]
    #[kani::unwind(8)]
    fn vanilla_step_inverse() {
        assert!(std::mem::size_of::<EncrypterHalf>() == 42);
        assert!(std::mem::size_of::<DecrypterHalf>() == 42);
        let key: [u8; 40] = kani::any();
        let index: u8 = kani::any();
        let prev: u8 = kani::any();
        kani::assume(index < 40);
        // layout: [u8;40], u8, u8 all align 1 -> field order is the only freedom; probe both halves identically
        let mut e: EncrypterHalf = unsafe { std::mem::transmute(Raw { key, index, prev }) };
        let mut d: DecrypterHalf = unsafe { std::mem::transmute(Raw { key, index, prev }) };
        let data: [u8; 6] = kani::any();
        let mut buf = data;
        e.encrypt(&mut buf);
        d.decrypt(&mut buf);
        assert!(buf == data);
        let e2: Raw = unsafe { std::mem::transmute(e) };
        let d2: Raw = unsafe { std::mem::transmute(d) };
        assert!(e2.index == d2.index && e2.prev == d2.prev && e2.index < 40);
    }
}
#[cfg(kani)]
mod proofs_wrath {
    use wow_srp::wrath_header::{ServerEncrypterHalf, ClientDecrypterHalf};
    #[repr(C)]
    #[derive(Clone, Copy)]
    struct Raw { state: [u8; 256], i: u8, j: u8, extra: [u8; 5] }

    #[kani::proof]
    #[kani::unwind(8)]
    fn wrath_step_inverse() {
        assert!(std::mem::size_of::<ServerEncrypterHalf>() == 263);
        let raw = Raw { state: kani::any(), i: kani::any(), j: kani::any(), extra: kani::any() };
        let mut e: ServerEncrypterHalf = unsafe { std::mem::transmute(raw) };
        let data: [u8; 5] = kani::any();
        let mut buf = data;
        e.encrypt(&mut buf);
        let mut e2: ServerEncrypterHalf = unsafe { std::mem::transmute(raw) };
        e2.encrypt(&mut buf);   // RC4: applying the same keystream twice is the identity
        assert!(buf == data);
    }
}
