// Feasibility probe: dump monomorphised MIR reachable from the local crate's
// non-generic functions as JSON lines, plus type and ADT tables.
#![feature(rustc_private)]
extern crate rustc_driver;
extern crate rustc_interface;
extern crate rustc_middle;
#[macro_use]
extern crate rustc_public;
extern crate serde_json;
extern crate rustc_public_bridge;
use rustc_public_bridge::IndexedVal;

use rustc_public::mir::mono::{Instance, InstanceKind};
use rustc_public::mir::visit::{Location, MirVisitor};
use rustc_public::mir::{Body, TerminatorKind};
use rustc_public::ty::{AdtDef, GenericArgKind, GenericArgs, RigidTy, Ty, TyKind};
use rustc_public::CrateDef;
use serde_json::{json, Value};
use std::collections::{HashMap, HashSet, VecDeque};
use std::io::Write;
use std::ops::ControlFlow;

struct TyCollector {
    tys: Vec<Ty>,
    allocs: Vec<rustc_public::ty::Allocation>,
}
impl MirVisitor for TyCollector {
    fn visit_ty(&mut self, ty: &Ty, _loc: Location) {
        self.tys.push(*ty);
    }
    fn visit_mir_const(&mut self, c: &rustc_public::ty::MirConst, loc: Location) {
        if let rustc_public::ty::ConstantKind::Allocated(a) = c.kind() {
            if !a.provenance.ptrs.is_empty() { self.allocs.push(a.clone()); }
        }
        self.super_mir_const(c, loc);
    }
}

struct Dumper {
    out: std::io::BufWriter<std::fs::File>,
    seen_ty: HashSet<String>,
    seen_adt: HashSet<String>,
    stop: Vec<String>,
}

fn ty_key(ty: &Ty) -> String {
    serde_json::to_string(ty).unwrap()
}

impl Dumper {
    fn dump_args(&mut self, args: &GenericArgs) {
        for a in args.0.iter() {
            if let GenericArgKind::Type(t) = a {
                self.dump_ty(*t);
            }
        }
    }
    fn dump_adt(&mut self, def: AdtDef, args: &GenericArgs, ty: Ty) {
        // keyed by the instantiated type so field types are concrete
        let key = ty_key(&ty);
        if !self.seen_adt.insert(key.clone()) {
            return;
        }
        let mut variants = vec![];
        for (vi, v) in def.variants().into_iter().enumerate() {
            let mut fields = vec![];
            for f in v.fields() {
                let fty = f.ty_with_args(args);
                fields.push(json!({"name": f.name, "ty": fty}));
            }
            let discr = if def.kind().is_enum() {
                Some(def.discriminant_for_variant(rustc_public::ty::VariantIdx::to_val(vi)).val.to_string())
            } else {
                None
            };
            variants.push(json!({"name": v.name(), "fields": fields, "discr": discr}));
        }
        let rec = json!({"k": "adt", "ty": ty, "name": def.name(), "trimmed": def.trimmed_name(), "adt_kind": format!("{}", def.kind()), "is_box": def.is_box(), "variants": variants});
        writeln!(self.out, "{}", rec).unwrap();
        for v in def.variants() {
            for f in v.fields() {
                let fty = f.ty_with_args(args);
                self.dump_ty(fty);
            }
        }
    }
    fn dump_ty(&mut self, ty: Ty) {
        let key = ty_key(&ty);
        if !self.seen_ty.insert(key) {
            return;
        }
        let kind = ty.kind();
        let shape = ty.layout().ok().map(|l| l.shape());
        let size = shape.as_ref().map(|s| s.size.bytes());
        let fields = shape.as_ref().map(|s| serde_json::to_value(&s.fields).unwrap());
        let rec = json!({"k": "ty", "id": ty, "str": format!("{}", ty), "kind": kind, "size": size, "fields": fields});
        writeln!(self.out, "{}", rec).unwrap();
        if let TyKind::RigidTy(r) = kind {
            match r {
                RigidTy::Adt(def, args) => {
                    self.dump_args(&args);
                    self.dump_adt(def, &args, ty);
                }
                RigidTy::Array(t, _) | RigidTy::Slice(t) | RigidTy::RawPtr(t, _) | RigidTy::Ref(_, t, _) => self.dump_ty(t),
                RigidTy::Tuple(ts) => {
                    for t in ts {
                        self.dump_ty(t);
                    }
                }
                RigidTy::Closure(_, args) | RigidTy::FnDef(_, args) => self.dump_args(&args),
                _ => {}
            }
        }
    }
    fn stopped(&self, name: &str) -> bool {
        self.stop.iter().any(|p| name.starts_with(p.as_str()))
    }
}

fn main() {
    let args: Vec<String> = std::env::args().collect();
    let _ = run!(&args, || -> ControlFlow<()> {
        let target = std::env::var("MIRDUMP_CRATE").unwrap_or_else(|_| "roots".to_string());
        if rustc_public::local_crate().name != target {
            return ControlFlow::Continue(());
        }
        let path = std::env::var("MIRDUMP_OUT").unwrap_or_else(|_| "/tmp/mirdump.jsonl".to_string());
        let stop: Vec<String> = std::env::var("MIRDUMP_STOP").map(|s| s.lines().map(|l| l.trim().to_string()).filter(|l| !l.is_empty()).collect()).unwrap_or_default();
        let mut d = Dumper { out: std::io::BufWriter::new(std::fs::File::create(path).unwrap()), seen_ty: HashSet::new(), seen_adt: HashSet::new(), stop };
        let mut queue: VecDeque<Instance> = VecDeque::new();
        let mut seen: HashMap<String, ()> = HashMap::new();
        for item in rustc_public::all_local_items().iter() {
            if let Ok(inst) = Instance::try_from(*item) {
                if let Ok(f) = std::env::var("MIRDUMP_ROOTS") { if !f.split(',').any(|p| inst.name().contains(p)) { continue; } }
                if inst.has_body() && seen.insert(inst.mangled_name(), ()).is_none() {
                    writeln!(d.out, "{}", json!({"k": "root", "key": inst.mangled_name(), "name": inst.name()})).unwrap();
                    queue.push_back(inst);
                }
            }
        }
        let mut dyn_methods: Vec<(rustc_public::ty::FnDef, String)> = vec![];
        let mut dyn_selfs: Vec<Ty> = vec![];
        let mut tried: HashSet<String> = HashSet::new();
        loop {
        while let Some(inst) = queue.pop_front() {
            let name = inst.name();
            let kind = match inst.kind { InstanceKind::Item => "item", InstanceKind::Intrinsic => "intrinsic", InstanceKind::Virtual { .. } => "virtual", InstanceKind::Shim => "shim" };
            if !inst.has_body() || d.stopped(&name) {
                writeln!(d.out, "{}", json!({"k": "fn", "key": inst.mangled_name(), "name": name, "kind": kind, "body": Value::Null, "intrinsic": inst.intrinsic_name()})).unwrap();
                continue;
            }
            let body: Body = inst.body().unwrap();
            let mut calls = serde_json::Map::new();
            for (i, bb) in body.blocks.iter().enumerate() {
                if let TerminatorKind::Call { func, .. } = &bb.terminator.kind {
                    let fty = func.ty(body.locals()).unwrap();
                    if let TyKind::RigidTy(RigidTy::FnDef(def, gargs)) = fty.kind() {
                        if let Ok(callee) = Instance::resolve(def, &gargs) {
                            if let InstanceKind::Virtual { .. } = callee.kind { dyn_methods.push((def, def.name())); }
                            calls.insert(i.to_string(), json!({"key": callee.mangled_name(), "name": callee.name(), "virtual": matches!(callee.kind, InstanceKind::Virtual{..}), "trait_fn": def.name()}));
                            if seen.insert(callee.mangled_name(), ()).is_none() {
                                queue.push_back(callee);
                            }
                        }
                    }
                }
            }
            let mut tc = TyCollector { tys: vec![], allocs: vec![] };
            tc.visit_body(&body);
            for l in body.locals() {
                tc.tys.push(l.ty);
            }
            for bb in body.blocks.iter() { for st in bb.statements.iter() {
                if let rustc_public::mir::StatementKind::Assign(_, rv) = &st.kind {
                    if let rustc_public::mir::Rvalue::Aggregate(rustc_public::mir::AggregateKind::Coroutine(..), _) = rv {
                        if let Ok(t) = rv.ty(body.locals()) { dyn_selfs.push(t); }
                    }
                }
            } }
            for t in tc.tys {
                d.dump_ty(t);
            }
            let mut pending = tc.allocs;
            while let Some(a) = pending.pop() {
                for (_off, prov) in a.provenance.ptrs.iter() {
                    let key = serde_json::to_string(&prov.0).unwrap();
                    if !d.seen_ty.insert(format!("alloc:{}", key)) { continue; }
                    match rustc_public::mir::alloc::GlobalAlloc::from(prov.0) {
                        rustc_public::mir::alloc::GlobalAlloc::Memory(m) => {
                            writeln!(d.out, "{}", json!({"k": "alloc", "id": prov.0, "mem": m})).unwrap();
                            if !m.provenance.ptrs.is_empty() { pending.push(m); }
                        }
                        other => { writeln!(d.out, "{}", json!({"k": "alloc", "id": prov.0, "other": format!("{:?}", other)})).unwrap(); }
                    }
                }
            }
            let rec = json!({"k": "fn", "key": inst.mangled_name(), "name": name, "kind": kind, "body": body, "calls": calls, "arg_count": body.arg_locals().len()});
            writeln!(d.out, "{}", rec).unwrap();
        }
            // virtual dispatch candidates: resolve every seen trait method for every coroutine type
            let mut added = false;
            for (def, dn) in dyn_methods.iter() {
                for t in dyn_selfs.iter() {
                    let k = format!("{}|{}", dn, ty_key(t));
                    if !tried.insert(k) { continue; }
                    let ga = GenericArgs(vec![GenericArgKind::Type(*t)]);
                    if let Ok(callee) = Instance::resolve(*def, &ga) {
                        writeln!(d.out, "{}", json!({"k": "vimpl", "trait_fn": dn, "self_ty": t, "key": callee.mangled_name(), "name": callee.name()})).unwrap();
                        if seen.insert(callee.mangled_name(), ()).is_none() { queue.push_back(callee); added = true; }
                    }
                }
            }
            if !added { break; }
        }
        d.out.flush().unwrap();
        ControlFlow::Continue(())
    });
}
