import re, sys, os, glob, collections, math
TOK=re.compile(r'\s+|/\*.*?\*/|///[^\n]*|(?P<str>"[^"]*")|(?P<num>0x[0-9A-Fa-f]+|0b[01]+|-?\d+\.\d+|-?\d+)|(?P<id>[A-Za-z_][A-Za-z0-9_\.]*)|(?P<op>==|!=|\|\||[{}()\[\];=:&,#\-|])',re.S)
def lex(s):
    out=[];i=0
    while i<len(s):
        m=TOK.match(s,i)
        if not m: raise SyntaxError('lex at %r'%s[i:i+30])
        i=m.end()
        if m.lastgroup: out.append((m.lastgroup,m.group(m.lastgroup)))
    return out
class P:
    def __init__(s,toks): s.t=toks; s.i=0
    def peek(s,k=0): return s.t[s.i+k] if s.i+k<len(s.t) else (None,None)
    def eat(s,v=None):
        t=s.t[s.i]
        if v is not None and t[1]!=v: raise SyntaxError('expected %r got %r at %d'%(v,t,s.i))
        s.i+=1; return t
    def tags(s):
        d=[]
        if s.peek()[1]=='{':
            s.eat('{')
            while s.peek()[1]!='}':
                k=s.eat()[1]; s.eat('='); v=s.eat()[1]; s.eat(';'); d.append((k,v.strip('"')))
            s.eat('}')
        return d
    def file(s):
        cmds=[];objs=[]
        while s.peek()[1]=='#':
            s.eat('#'); c=s.eat()[1]; k=s.eat()[1]; v=s.eat()[1]; s.eat(';'); cmds.append((c,k,v.strip('"')))
        while s.peek()[0] is not None:
            kw=s.peek()[1]
            if kw in('enum','flag'): objs.append(s.definer())
            elif kw in('struct','clogin','slogin','smsg','cmsg','msg'): objs.append(s.container())
            elif kw=='test': objs.append(s.test())
            else: raise SyntaxError('stmt %r'%(s.peek(),))
        return cmds,objs
    def definer(s):
        kw=s.eat()[1]; name=s.eat()[1]; s.eat(':'); ty=s.eat()[1]; s.eat('{'); fs=[]
        while s.peek()[1]!='}':
            n=s.eat()[1]; s.eat('='); v=s.eat()[1]
            if s.peek()[1]=='{': s.tags()
            else: s.eat(';')
            fs.append((n,v))
        s.eat('}'); return dict(k=kw,name=name,ty=ty,fields=fs,tags=s.tags())
    def container(s):
        kw=s.eat()[1]; name=s.eat()[1]; op=None
        if s.peek()[1]=='=': s.eat('='); op=s.eat()[1]
        s.eat('{'); ms=s.members(); s.eat('}'); return dict(k=kw,name=name,opcode=op,members=ms,tags=s.tags())
    def members(s):
        ms=[]
        while s.peek()[1]!='}':
            t=s.peek()[1]
            if t=='if': ms.append(s.ifs())
            elif t=='optional':
                s.eat(); n=s.eat()[1]; s.eat('{'); m=s.members(); s.eat('}'); s.tags(); ms.append(dict(k='optional',name=n,members=m))
            elif t=='unimplemented': s.eat(); ms.append(dict(k='unimplemented'))
            else: ms.append(s.decl())
        return ms
    def cond(s):
        cs=[]
        while True:
            v=s.eat()[1]; op=s.eat()[1]; e=s.eat()[1]; cs.append((v,op,e))
            if s.peek()[1]=='||': s.eat()
            else: break
        return cs
    def ifs(s):
        s.eat('if'); s.eat('('); c=s.cond(); s.eat(')'); s.eat('{'); m=s.members(); s.eat('}')
        br=[(c,m)]; els=None
        while s.peek()[1]=='else':
            s.eat()
            if s.peek()[1]=='if':
                s.eat(); s.eat('('); c=s.cond(); s.eat(')'); s.eat('{'); m=s.members(); s.eat('}'); br.append((c,m))
            else: s.eat('{'); els=s.members(); s.eat('}')
        return dict(k='if',branches=br,els=els)
    def decl(s):
        up=None
        if s.peek()[1]=='(': s.eat(); up=s.eat()[1]; s.eat(')')
        ty=s.eat()[1]; arr=None
        if s.peek()[1]=='[':
            s.eat(); arr=s.eat()[1]; s.eat(']')
        name=s.eat()[1]; val=None
        if s.peek()[1]=='=': s.eat(); val=s.eat()[1]
        tg=[]
        if s.peek()[1]=='{': tg=s.tags()
        else: s.eat(';')
        return dict(k='decl',ty=ty,up=up,arr=arr,name=name,val=val,tags=tg)
    def test(s):
        s.eat('test'); name=s.eat()[1]
        # skip balanced { } then [ ] then optional tags
        def skip(o,c):
            d=0
            while True:
                t=s.eat()[1]
                if t==o: d+=1
                elif t==c:
                    d-=1
                    if d==0: return
        skip('{','}'); skip('[',']'); tg=s.tags(); return dict(k='test',name=name,tags=tg)
if __name__=='__main__':
    root='/repo/wow_message_parser/wowm'
    files=sorted(glob.glob(root+'/**/*.wowm',recursive=True)); objs=[]; bad=0
    for f in files:
        try:
            cmds,o=P(lex(open(f).read())).file()
            for x in o: x['file']=f; x['cmds']=cmds
            objs+=o
        except Exception as e: bad+=1; print('FAIL',f,e)
    print('files',len(files),'bad',bad,'objects',collections.Counter(o['k'] for o in objs))
    defs=collections.defaultdict(list)
    for o in objs:
        if o['k']!='test': defs[o['name']].append(o)
    STR={'CString','SizedCString','String'}
    def shapes(c,NA,NS,depth=0):
        if depth>6: return 1
        def mem(ms):
            p=1
            for m in ms:
                if m['k']=='decl':
                    t=m['ty']
                    def one():
                        if t in STR: return NS+1
                        ds=[d for d in defs.get(t,[]) if d['k'] not in('enum','flag')]
                        if ds: return max(shapes(d,NA,NS,depth+1) for d in ds)
                        return 1
                    b=one()
                    if m['arr'] is None: p*=b
                    elif re.fullmatch(r'\d+',m['arr']): p*= b if b==1 else min(b**int(m['arr']),10**6)
                    else: p*=sum(b**k for k in range(NA+1))
                elif m['k']=='optional': p*=1+mem(m['members'])
                elif m['k']=='if':
                    isflag=any(op=='&' for br in m['branches'] for (_,op,_) in br[0])
                    if isflag and len(m['branches'])==1 and not m['els']: p*=1+mem(m['branches'][0][1])
                    else: p*=sum(mem(b[1]) for b in m['branches'])+(mem(m['els']) if m['els'] else 1)
                if p>10**12: return 10**12
            return p
        return mem(c['members'])
    for NA,NS in ((1,1),(2,2),(3,3)):
        cs=[o for o in objs if o['k'] in('smsg','cmsg','msg','clogin','slogin')]
        v=sorted(shapes(c,NA,NS) for c in cs)
        tot=sum(min(x,5000) for x in v)
        print('NA',NA,'NS',NS,'containers',len(cs),'median',v[len(v)//2],'p90',v[int(len(v)*.9)],'p99',v[int(len(v)*.99)],'max',v[-1],'over200',sum(x>200 for x in v),'over5000',sum(x>5000 for x in v),'sum(capped 5000)',tot)
