import sys, time, z3, itertools
sys.path.insert(0,'/tmp/drv')
from mirsym2 import *
P=Prog('/tmp/rp/dump_parser.jsonl'); ex=Exec(P)
adt=[a for a in P.adts.values() if a['name'].endswith('version::WorldVersion')][0]
names=[v['name'] for v in adt['variants']]; print(names, [len(v['fields']) for v in adt['variants']])
W=[8,8,8,16]
def mk(tag,vi):
    n=len(adt['variants'][vi]['fields']); fs=[z3.BitVec('%s%d'%(tag,i),W[i]) for i in range(n)]
    return EnumV(vi,fs), fs
# set semantics: a version denotes {(m,i,p,b)}: Major(m)= m fixed; Minor(m,i); Patch(m,i,p); Exact(m,i,p,b); All = everything
def overlap_spec(va,fa,vb,fb):
    if names[va]=='All' or names[vb]=='All': return z3.BoolVal(True)
    k=min(len(fa),len(fb)); return z3.And(*[fa[i]==fb[i] for i in range(k)])
def covers_spec(va,fa,vb,fb):   # a covers b  <=> set(a) superset of set(b)
    if names[va]=='All': return z3.BoolVal(True)
    if names[vb]=='All': return z3.BoolVal(False)
    if len(fa)>len(fb): return z3.BoolVal(False)
    return z3.And(*[fa[i]==fb[i] for i in range(len(fa))])
t=time.time(); bad=0; q=0
for fn,spec in (('overlaps',overlap_spec),('covers',covers_spec)):
    f=[x for x in P.byname if x.endswith('WorldVersion::'+fn)][0]
    for va,vb in itertools.product(range(len(names)),repeat=2):
        a,fa=mk('a',va); b,fb=mk('b',vb)
        st=State(); ex.enter(st, P.byname[f], [Ref(Cell(a),[]), Ref(Cell(b),[])], None, None)
        res=ex.run(st)
        for r in res:
            assert r.status=='ret', r.status
            s=z3.Solver(); s.add(*r.pc); s.add(r.result != spec(va,fa,vb,fb)); q+=1
            if s.check()!=z3.unsat: bad+=1; print('DIFF',fn,names[va],names[vb],s.model())
print('queries',q,'violations',bad,'time',round(time.time()-t,2))
