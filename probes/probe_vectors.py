import sys, time, z3, collections, signal, json, re, glob, os
sys.path.insert(0,'/tmp/drv')
from mirsym2 import *
P=Prog('/tmp/roots/dump_all.jsonl')
root='/tmp/rp/wow_world_messages/src/world/'
vecs=[]
for f in sorted(glob.glob(root+'vanilla/*.rs')+glob.glob(root+'shared/*vanilla*.rs')):
    s=open(f).read()
    m=re.search(r'impl crate::Message for (\w+)',s)
    if not m: continue
    name=m.group(1)
    hs=re.search(r'const HEADER_SIZE: usize = ([0-9 +]+);',s)
    if not hs: continue
    hsz=eval(hs.group(1))
    for r in re.finditer(r'const RAW(\d+): \[u8; (\d+)\] = \[(.*?)\];',s,re.S):
        bs=[int(x,16) for x in re.findall(r'0x([0-9A-Fa-f]{2})',r.group(3))]
        assert len(bs)==int(r.group(2))
        vecs.append((name,int(r.group(1)),hsz,bs))
print('vectors',len(vecs))
class TO(Exception): pass
def h(*a): raise TO()
signal.signal(signal.SIGALRM,h)
tot=collections.Counter(); reasons=collections.Counter()
seen=set()
for name,idx,hsz,bs in vecs:
    if (name,idx) in seen: continue
    seen.add((name,idx))
    if 'roots::r_'+name not in P.byname: tot['noroot']+=1; continue
    body=[z3.BitVecVal(b,8) for b in bs[hsz:]]
    ex=Exec(P); st=State(); ex.enter(st, P.byname['roots::r_'+name], [SliceRef(list(body),0,len(body)), z3.BitVecVal(len(body),32)], None, None)
    signal.alarm(20)
    try:
        res=ex.run(st)
        if len(res)!=1 or res[0].status!='ret' or not isinstance(res[0].result,EnumV) or res[0].result.d!=0:
            tot['read_fail']+=1; reasons['R:'+name+':'+';'.join(sorted(set(r.status for r in res)))[:120]]+=1; signal.alarm(0); continue
        msg=res[0].result.f[0]; out=VecV([])
        st2=State(); st2.trace=[out]; ex.enter(st2, P.byname['roots::w_'+name], [Ref(Cell(msg),[]), Ref(Cell(out),[])], None, None)
        res2=ex.run(st2)
        if len(res2)!=1 or res2[0].status!='ret': tot['write_fail']+=1; reasons['W:'+name+':'+';'.join(sorted(set(r.status for r in res2)))[:120]]+=1; signal.alarm(0); continue
        o=[concrete(x) for x in res2[0].trace[0].lst]
        st3=State(); ex.enter(st3, P.byname['roots::s_'+name], [Ref(Cell(msg),[])], None, None); res3=ex.run(st3)
        sz=concrete(res3[0].result) if res3[0].status=='ret' else None
        if o==bs[hsz:] and sz==len(body): tot['ok']+=1
        else: tot['MISMATCH']+=1; reasons['M:'+name+': size %r len %d out==in %r'%(sz,len(body),o==bs[hsz:])]+=1
        signal.alarm(0)
    except TO: tot['timeout']+=1
    except Exception as e: signal.alarm(0); tot['crash']+=1; reasons['C:'+name+':'+type(e).__name__+':'+str(e)[:80]]+=1
print(dict(tot))
for k,v in reasons.most_common(60): print('  ',v,k)
