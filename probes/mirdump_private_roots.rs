#![feature(rustc_private)]
extern crate rustc_driver;
extern crate rustc_interface;
extern crate rustc_middle;
#[macro_use]
extern crate rustc_public;
use std::ops::ControlFlow;
use rustc_public::CrateDef;
use rustc_public::mir::mono::Instance;
use rustc_public::ty::GenericArgs;
fn main() {
    let args: Vec<String> = std::env::args().collect();
    let _ = run!(&args, || -> ControlFlow<()> {
        if rustc_public::local_crate().name != "roots" { return ControlFlow::Continue(()); }
        for c in rustc_public::find_crates("wow_world_messages") {
            let defs = c.fn_defs();
            println!("crate {} fn_defs {}", c.name, defs.len());
            let mut n = 0; let mut ok = 0; let mut body = 0;
            for d in defs.iter() {
                let name = d.name();
                if name.ends_with("::read_inner") || name.contains("from_large_array") || name.contains("u16s_to_u32") || name.contains("inners::array_set") {
                    n += 1;
                    match Instance::resolve(*d, &GenericArgs(vec![])) {
                        Ok(i) => { ok += 1; if i.has_body() { body += 1; } if n < 6 { println!("  {} -> has_body={}", i.name(), i.has_body()); } }
                        Err(e) => { if n < 6 { println!("  {} ERR {:?}", name, e); } }
                    }
                }
            }
            println!("candidates {} resolved {} with body {}", n, ok, body);
        }
        ControlFlow::Continue(())
    });
}
