#[cfg(kani)]
mod proofs {
    use wow_world_messages::vanilla::*;
    use wow_world_messages::Message;
    use wow_world_messages::verif_hooks::Internal;

    #[kani::proof]
    #[kani::unwind(10)]
    fn char_delete_rt() {
        let buf: [u8; 8] = kani::any();
        let mut r = &buf[..];
        let m = <CMSG_CHAR_DELETE as Message>::read_body::<Internal>(&mut r, 8);
        match m {
            Ok(c) => {
                assert!(c.size_without_header() == 8);
                let mut out = [0u8; 8];
                c.write_into_vec(&mut out[..]).unwrap();
                assert!(out == buf);
            }
            Err(e) => { std::mem::forget(e); assert!(false); }
        }
    }

    #[kani::proof]
    #[kani::unwind(10)]
    fn smsg_char_create_total() {
        let buf: [u8; 1] = kani::any();
        let mut r = &buf[..];
        let m = <SMSG_CHAR_CREATE as Message>::read_body::<Internal>(&mut r, 1);
        match m {
            Ok(c) => {
                let mut out = [0u8; 1];
                c.write_into_vec(&mut out[..]).unwrap();
                assert!(out == buf);
            }
            Err(e) => { std::mem::forget(e); }
        }
    }

    fn fake_from_utf8(v: Vec<u8>) -> Result<String, std::string::FromUtf8Error> {
        // bound: ASCII only
        for b in v.iter() { kani::assume(*b < 0x80); }
        Ok(unsafe { String::from_utf8_unchecked(v) })
    }

    #[kani::proof]
    #[kani::unwind(12)]
    #[kani::stub(std::string::String::from_utf8, fake_from_utf8)]
    fn char_create_rt() {
        let nlen: usize = kani::any();
        kani::assume(nlen <= 2);
        let name: [u8; 2] = kani::any();
        let rest: [u8; 8] = kani::any();
        let mut buf = [0u8; 2 + 1 + 9];
        let mut p = 0;
        for i in 0..2 { if i < nlen { kani::assume(name[i] != 0 && name[i] < 0x80); buf[p] = name[i]; p += 1; } }
        buf[p] = 0; p += 1;
        kani::assume(rest[0] >= 1 && rest[0] <= 8);
        kani::assume(rest[1] >= 1 && rest[1] <= 5);
        kani::assume(rest[2] <= 1);
        for i in 0..8 { buf[p] = rest[i]; p += 1; }
        buf[p] = 0; p += 1;
        let total = p;
        let mut r = &buf[..total];
        let m = <CMSG_CHAR_CREATE as Message>::read_body::<Internal>(&mut r, total as u32);
        match m {
            Ok(c) => {
                assert!(c.size_without_header() as usize == total);
                let mut out = [0u8; 12];
                c.write_into_vec(&mut out[..]).unwrap();
                for i in 0..12 { if i < total { assert!(out[i] == buf[i]); } }
                std::mem::forget(c);
            }
            Err(e) => { std::mem::forget(e); assert!(false); }
        }
    }
}
