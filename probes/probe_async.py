import sys, time, itertools, z3
sys.path.insert(0,'/tmp/drv')
from mirsym2 import *
P=Prog('/tmp/roots2/dump.jsonl'); ex=Exec(P)
data=[z3.BitVecVal(0x33,8)]+[z3.BitVec('d%d'%i,8) for i in range(8)]
def run_sync(n):
    st=State(); ex.enter(st, P.byname['roots::root_sync'], [SliceRef(list(data[:n]),0,n)], None, None)
    return ex.run(st)
def run_async(n, sched):
    st=State(); st.env={'data':list(data[:n]),'pos':0,'sched':list(sched)}
    ex.enter(st, P.byname['roots::root_async'], [Ref(Cell(Agg([z3.BitVecVal(0,64)])),[]), Opaque('cx')], None, None)
    return ex.run(st)
def show(r):
    if r.status!='ret': return r.status
    v=r.result
    if isinstance(v,EnumV) and v.d==0: return ('Ok', [simp(x) if z3.is_expr(x) else x for x in v.f[0].f])
    return ('Err', repr(v.f[0])[:80])
t=time.time(); n_s=0; bad=0
for n in (9,5,1,0):
    a=[show(r) for r in run_sync(n)]
    for L in range(0,4):
        for sched in itertools.product(['P',1,2,5], repeat=L):
            b=[show(r) for r in run_async(n, sched)]; n_s+=1
            same = (len(a)==len(b)==1 and a[0][0]==b[0][0] and (a[0][0]!='Ok' or all(z3.is_true(simp(x==y)) for x,y in zip(a[0][1],b[0][1]))))
            if not same: bad+=1; print('DIFF', n, sched, a, b)
    print('len',n,'sync',a)
print('schedules',n_s,'bad',bad,'time',time.time()-t, ex.stats)
