import sys, time, z3, collections, signal, json, re
sys.path.insert(0,'/tmp/drv')
from mirsym2 import *
P=Prog('/tmp/roots/dump_all.jsonl')
names=sorted(n[len('roots::r_'):] for n in P.byname if n.startswith('roots::r_'))
L=int(sys.argv[1]); lim=int(sys.argv[2]) if len(sys.argv)>2 else 10**9
class TO(Exception): pass
def h(*a): raise TO()
signal.signal(signal.SIGALRM,h)
tot=collections.Counter(); reasons=collections.Counter(); panics={}; times=[]
t0=time.time()
for n in names[:lim]:
    ex=Exec(P); buf=[z3.BitVec('b%d'%i,8) for i in range(L)]
    st=State(); ex.enter(st, P.byname['roots::r_'+n], [SliceRef(buf,0,L), z3.BitVecVal(L,32)], None, None)
    t=time.time(); signal.alarm(8)
    try:
        res=ex.run(st, max_steps=300000); signal.alarm(0)
    except TO: tot['timeout']+=1; continue
    except Exception as e: signal.alarm(0); tot['crash']+=1; reasons['crash:'+type(e).__name__+':'+str(e)[:60]]+=1; continue
    times.append(time.time()-t)
    sts=[r.status for r in res]
    if any(s.startswith('unsupported') for s in sts):
        tot['unsupported']+=1
        for s in set(sts):
            if s.startswith('unsupported'): reasons[re.sub(r'0x[0-9a-f]+','',s)[:110]]+=1
    elif any(s.startswith('panic') for s in sts):
        tot['panic']+=1; panics[n]=sorted(set(s[:90] for s in sts if s.startswith('panic')))
    else: tot['clean']+=1
print('L',L,'messages',len(names[:lim]),dict(tot),'wall',round(time.time()-t0,1),'max',round(max(times),2),'median',round(sorted(times)[len(times)//2],3))
for k,v in reasons.most_common(25): print('  ',v,k)
for k,v in list(panics.items())[:25]: print('  PANIC',k,v)
