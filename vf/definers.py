"""Shared by C11/C12: locate the Rust type of every wowm definer through its *public path* and collect its methods."""
import os
from . import mirdump, wowm
from .mirsym import Prog
from .inventory import Inventory
from .common import log

METHOD_PATS = ['*::as_int', '*::from_int', '*::variants', '*::new', '*::empty', '*::is_*', '*::new_*', '*::set_*', '*::clear_*', '*::all',
               '<* as std::convert::TryFrom<*>>::try_from', '<* as std::convert::From<*>>::from', '<* as std::ops::Bit*>::*',
               '<* as std::default::Default>::default']


def world_targets(corpus):
    """[(view, definer, public path)]"""
    out = []
    for exp in ('vanilla', 'tbc', 'wrath'):
        v = corpus.world_view(exp)
        for name, d in sorted(v['definers'].items()):
            if corpus.is_test_object(d):
                continue
            out.append((v, d, 'wow_world_messages::%s::%s' % (exp, name)))
    return out


def login_targets(corpus):
    out = []
    for ver in wowm.LOGIN_ALL:
        v = corpus.login_view(ver)
        for name, d in sorted(v['definers'].items()):
            if corpus.is_test_object(d):
                continue
            lv = corpus.tag(d, 'login_versions').split()
            mod = 'all' if '*' in lv else 'version_%d' % ver
            out.append((v, d, 'wow_login_messages::%s::%s' % (mod, name)))
    return out


def const_items(targets):
    """flag constants through their public path: one local fn per (type path, enumerator)"""
    items = {}
    for v, d, path in targets:
        if d['k'] != 'flag':
            continue
        for f in d['fields']:
            items['const|%s|%s' % (path, f['name'])] = 'pub fn c_%d() -> u64 { %s::%s as u64 }' % (len(items), path, f['name'])
    return items


def build(kind, corpus):
    """returns (Prog, Inventory, targets with type ids: [(view, definer, path, ty_id|None)], dropped items)"""
    if kind == 'world':
        targets = world_targets(corpus)
        deps = ['wow_world_messages', 'wow_world_base']
        dep_roots = [{'crate': 'wow_world_base', 'pats': METHOD_PATS, 'targs': []},
                     {'crate': 'wow_world_messages', 'pats': METHOD_PATS, 'targs': []}]
    else:
        targets = login_targets(corpus)
        deps = ['wow_login_messages']
        dep_roots = [{'crate': 'wow_login_messages', 'pats': METHOD_PATS, 'targs': []}]
    items = {}
    seen = {}
    for v, d, path in targets:
        if path not in seen:
            seen[path] = 'ty|' + path
            items['ty|' + path] = 'pub fn t_%d(_x: &%s) {}' % (len(items), path)
    items.update(const_items(targets))
    out, dropped = mirdump.dump_items('definers_' + kind, deps, items, dep_roots, extra_rs='pub fn __templates() {}\n')
    prog = Prog(out)
    inv = Inventory(prog)
    # map item ids to local fn names
    lib = open(os.path.join(os.path.dirname(out), 'src', 'lib.rs')).read().splitlines()
    item_fn = {}
    import re
    for line in lib:
        m = re.search(r'pub fn (\w+)\(.*/\*ITEM:(.*?)\*/', line)
        if m:
            item_fn[m.group(2)] = m.group(1)
    res = []
    for v, d, path in targets:
        fn = item_fn.get('ty|' + path)
        ty = None
        if fn:
            t = inv.type_of_local_arg(fn, 0)
            if t is not None:
                ty = prog.tk(t)['Ref'][1]
        res.append((v, d, path, ty))
    return prog, inv, res, dropped, item_fn
