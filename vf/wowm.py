"""Independent reader of the wowm language (DESIGN.md 2.2), written from wowm_language/src/spec/*.md and types/*.md.
Own tokenizer and recursive-descent parser; version expansion (versions / paste_versions / login_versions / #tag_all);
version-aware name lookup ("as specific or less specific")."""
import glob
import os
import re
from .common import REPO

TOK = re.compile(r'''\s+|/\*.*?\*/|(?P<doc>///[^\n]*)|(?P<str>"[^"]*")|(?P<num>0x[0-9A-Fa-f]+|0b[01]+|-?\d+\.\d+|-?\d+(?![A-Za-z_]))|(?P<id>[A-Za-z_0-9][A-Za-z0-9_\.]*)|(?P<op>==|!=|\|\||[{}()\[\];=:&,#\-|])''', re.S)

WORLD_MAIN = {'vanilla': (1, 12), 'tbc': (2, 4, 3), 'wrath': (3, 3, 5)}
LOGIN_ALL = [2, 3, 5, 6, 7, 8]
CONTAINER_KW = ('struct', 'clogin', 'slogin', 'smsg', 'cmsg', 'msg')


class WowmError(Exception):
    pass


def lex(s, fname=''):
    out = []
    i = 0
    n = len(s)
    while i < n:
        m = TOK.match(s, i)
        if not m:
            raise WowmError('lex error in %s at %r' % (fname, s[i:i + 30]))
        if m.lastgroup:
            out.append((m.lastgroup, m.group(m.lastgroup), s.count('\n', 0, m.start()) + 1))
        i = m.end()
    return out


def parse_value(v):
    """definer / opcode / constant value -> int (strings are big-endian packed per lang-spec: "\\0AB" -> 0x4142)"""
    if isinstance(v, int):
        return v
    if v.startswith('"'):
        t = v[1:-1].replace('\\0', '\0')
        n = 0
        for ch in t:
            n = (n << 8) | ord(ch)
        return n
    if v.startswith('0x') or v.startswith('0X'):
        return int(v[2:], 16)
    if v.startswith('0b'):
        return int(v[2:], 2)
    if re.fullmatch(r'-?\d+', v):
        return int(v)
    raise WowmError('not an integer value: %r' % (v,))


class Parser:
    def __init__(self, toks, fname):
        self.t = toks
        self.i = 0
        self.fname = fname

    def peek(self, k=0):
        j = self.i + k
        return self.t[j] if j < len(self.t) else (None, None, 0)

    def eat(self, v=None):
        if self.i >= len(self.t):
            raise WowmError('unexpected end of %s' % self.fname)
        t = self.t[self.i]
        if v is not None and t[1] != v:
            raise WowmError('%s: expected %r got %r' % (self.fname, v, t))
        self.i += 1
        return t

    def docs(self):
        d = []
        while self.peek()[0] == 'doc':
            d.append(self.eat()[1][3:].strip())
        return d

    def tags(self):
        d = []
        if self.peek()[1] == '{':
            self.eat('{')
            while self.peek()[1] != '}':
                k = self.eat()[1]
                self.eat('=')
                v = self.eat()
                self.eat(';')
                d.append((k, v[1][1:-1] if v[0] == 'str' else v[1]))
            self.eat('}')
        return d

    def file(self):
        cmds = []
        objs = []
        while self.peek()[1] == '#':
            self.eat('#')
            c = self.eat()[1]
            k = self.eat()[1]
            v = self.eat()[1]
            self.eat(';')
            cmds.append((c, k, v.strip('"')))
        while self.peek()[0] is not None:
            docs = self.docs()
            kw = self.peek()[1]
            if kw is None:
                break
            line = self.peek()[2]
            if kw in ('enum', 'flag'):
                o = self.definer()
            elif kw in CONTAINER_KW:
                o = self.container()
            elif kw == 'test':
                o = self.test()
            else:
                raise WowmError('%s: unexpected statement %r' % (self.fname, self.peek()))
            o['docs'] = docs
            o['line'] = line
            objs.append(o)
        return cmds, objs

    def definer(self):
        kw = self.eat()[1]
        name = self.eat()[1]
        self.eat(':')
        ty = self.eat()[1]
        self.eat('{')
        fs = []
        while self.peek()[1] != '}':
            self.docs()
            n = self.eat()[1]
            self.eat('=')
            v = self.eat()[1]
            tg = []
            if self.peek()[1] == '{':
                tg = self.tags()
            else:
                self.eat(';')
            fs.append({'name': n, 'raw': v, 'value': parse_value(v), 'tags': tg})
        self.eat('}')
        return {'k': kw, 'name': name, 'ty': ty, 'fields': fs, 'tags': self.tags()}

    def container(self):
        kw = self.eat()[1]
        name = self.eat()[1]
        op = None
        if self.peek()[1] == '=':
            self.eat('=')
            op = parse_value(self.eat()[1])
        self.eat('{')
        ms = self.members()
        self.eat('}')
        return {'k': kw, 'name': name, 'opcode': op, 'members': ms, 'tags': self.tags()}

    def members(self):
        ms = []
        while True:
            self.docs()
            t = self.peek()[1]
            if t == '}':
                break
            if t == 'if':
                ms.append(self.ifs())
            elif t == 'optional':
                self.eat()
                n = self.eat()[1]
                self.eat('{')
                m = self.members()
                self.eat('}')
                self.tags()
                ms.append({'k': 'optional', 'name': n, 'members': m})
            elif t == 'unimplemented':
                self.eat()
                ms.append({'k': 'unimplemented'})
            else:
                ms.append(self.decl())
        return ms

    def cond(self):
        cs = []
        while True:
            v = self.eat()[1]
            op = self.eat()[1]
            e = self.eat()[1]
            cs.append((v, op, e))
            if self.peek()[1] == '||':
                self.eat()
            else:
                break
        return cs

    def ifs(self):
        self.eat('if')
        self.eat('(')
        c = self.cond()
        self.eat(')')
        self.eat('{')
        m = self.members()
        self.eat('}')
        br = [(c, m)]
        els = None
        while self.peek()[1] == 'else':
            self.eat()
            if self.peek()[1] == 'if':
                self.eat()
                self.eat('(')
                c = self.cond()
                self.eat(')')
                self.eat('{')
                m = self.members()
                self.eat('}')
                br.append((c, m))
            else:
                self.eat('{')
                els = self.members()
                self.eat('}')
        return {'k': 'if', 'branches': br, 'els': els}

    def decl(self):
        up = None
        if self.peek()[1] == '(':
            self.eat()
            up = self.eat()[1]
            self.eat(')')
        ty = self.eat()[1]
        arr = None
        if self.peek()[1] == '[':
            self.eat()
            arr = self.eat()[1]
            self.eat(']')
        name = self.eat()[1]
        val = None
        if self.peek()[1] == '=':
            self.eat()
            val = self.eat()[1]
        tg = []
        if self.peek()[1] == '{':
            tg = self.tags()
        else:
            self.eat(';')
        return {'k': 'decl', 'ty': ty, 'up': up, 'arr': arr, 'name': name, 'val': val, 'tags': tg}

    # ---- tests
    def test(self):
        self.eat('test')
        name = self.eat()[1]
        self.eat('{')
        fields = self.test_fields('}')
        self.eat('}')
        self.eat('[')
        bs = []
        while self.peek()[1] != ']':
            bs.append(parse_value(self.eat()[1]) & 0xFF)
            if self.peek()[1] == ',':
                self.eat()
        self.eat(']')
        return {'k': 'test', 'name': name, 'fields': fields, 'bytes': bs, 'tags': self.tags()}

    def test_fields(self, end):
        fs = []
        while self.peek()[1] != end:
            n = self.eat()[1]
            self.eat('=')
            v = self.test_value()
            if self.peek()[1] == '{':
                self.tags()
            else:
                self.eat(';')
            fs.append((n, v))
        return fs

    def test_value(self):
        t = self.peek()[1]
        if t == '[':
            self.eat()
            items = []
            while self.peek()[1] != ']':
                if self.peek()[1] == '{':
                    self.eat('{')
                    items.append(dict(k='obj', fields=self.test_fields('}')))
                    self.eat('}')
                else:
                    items.append(self.eat()[1])
                if self.peek()[1] == ',':
                    self.eat()
            self.eat(']')
            return {'k': 'arr', 'items': items}
        if t == '{':
            self.eat('{')
            f = self.test_fields('}')
            self.eat('}')
            return {'k': 'obj', 'fields': f}
        vals = [self.eat()[1]]
        while self.peek()[1] == '|':
            self.eat()
            vals.append(self.eat()[1])
        return {'k': 'val', 'vals': vals}


# ------------------------------------------------------------------------------------------- versions
def parse_world_versions(s):
    out = []
    for part in s.split():
        if part == '*':
            return ['*']
        out.append(tuple(int(x) for x in part.split('.')))
    return out


def world_covers(vers, main):
    """does a version list cover the main version (e.g. (1,12))? 'as specific or less specific'"""
    for v in vers:
        if v == '*':
            return True
        if len(v) <= len(main) and tuple(main[:len(v)]) == tuple(v):
            return True
    return False


class Corpus:
    """all objects of wow_message_parser/wowm, expanded per world expansion and per login version"""

    def __init__(self, root=None):
        self.root = root or os.path.join(REPO, 'wow_message_parser', 'wowm')
        self.objects = []
        self.errors = []
        for f in sorted(glob.glob(self.root + '/**/*.wowm', recursive=True)):
            try:
                src = open(f).read()
                cmds, objs = Parser(lex(src, f), f).file()
            except WowmError as e:
                self.errors.append((f, str(e)))
                continue
            for o in objs:
                o['file'] = os.path.relpath(f, self.root)
                tags = list(o.get('tags', []))
                for c, k, v in cmds:
                    if c == 'tag_all':
                        # tag_all appends to an existing tag of the same name
                        ex = [i for i, (tk, tv) in enumerate(tags) if tk == k]
                        if ex:
                            tags[ex[0]] = (k, tags[ex[0]][1] + ' ' + v)
                        else:
                            tags.append((k, v))
                o['tags'] = tags
                self.objects.append(o)
        self._views = {}

    def tag(self, o, k):
        for tk, tv in o['tags']:
            if tk == k:
                return tv
        return None

    def is_test_object(self, o):
        return self.tag(o, 'test') == 'true'

    def world_view(self, exp):
        """{'definers': {name: o}, 'containers': {name: o}, 'tests': [...]} for vanilla/tbc/wrath"""
        key = ('world', exp)
        if key in self._views:
            return self._views[key]
        main = WORLD_MAIN[exp]
        defs = {}
        conts = {}
        tests = []
        dup = []
        for o in self.objects:
            if self.tag(o, 'login_versions') is not None:
                continue
            vs = self.tag(o, 'versions')
            pv = self.tag(o, 'paste_versions')
            vers = parse_world_versions((vs or '') + ' ' + (pv or ''))
            if not vers or not world_covers(vers, main):
                continue
            if o['k'] == 'test':
                tests.append(o)
                continue
            tgt = defs if o['k'] in ('enum', 'flag') else conts
            if o['name'] in tgt:
                dup.append(o['name'])
            tgt[o['name']] = o
        v = {'definers': defs, 'containers': conts, 'tests': tests, 'dups': dup, 'kind': 'world', 'exp': exp}
        self._views[key] = v
        return v

    def login_view(self, ver):
        key = ('login', ver)
        if key in self._views:
            return self._views[key]
        defs = {}
        conts = {}
        tests = []
        dup = []
        for o in self.objects:
            lv = self.tag(o, 'login_versions')
            if lv is None:
                continue
            vers = lv.split()
            if '*' not in vers and str(ver) not in vers:
                continue
            if o['k'] == 'test':
                tests.append(o)
                continue
            tgt = defs if o['k'] in ('enum', 'flag') else conts
            if o['name'] in tgt:
                dup.append(o['name'])
            tgt[o['name']] = o
        v = {'definers': defs, 'containers': conts, 'tests': tests, 'dups': dup, 'kind': 'login', 'ver': ver}
        self._views[key] = v
        return v


def norm_ident(s):
    return re.sub(r'[^a-z0-9]', '', s.lower())


def int_type_info(ty):
    """wowm basic integer type -> (bytes, signed, big_endian)"""
    m = re.fullmatch(r'([ui])(8|16|32|48|64)(_be)?', ty)
    if not m:
        return None
    return (int(m.group(2)) // 8, m.group(1) == 'i', bool(m.group(3)))


if __name__ == '__main__':
    import collections
    c = Corpus()
    print('objects', len(c.objects), 'errors', c.errors[:5])
    print(collections.Counter(o['k'] for o in c.objects))
    for e in ('vanilla', 'tbc', 'wrath'):
        v = c.world_view(e)
        print(e, len(v['definers']), len(v['containers']), len(v['tests']), 'dups', v['dups'][:5])
    for n in LOGIN_ALL:
        v = c.login_view(n)
        print('login', n, len(v['definers']), len(v['containers']), len(v['tests']), 'dups', v['dups'][:5])
