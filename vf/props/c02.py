"""C02 - framing is exact.
A. declared size == bytes written, per message and shape (the size/length obligations of the C01 machinery).
B. header math for every body length: the real default write_unencrypted_{server,client} bodies (traits/*.rs) and the
   header helpers are executed by MIRSYM with size_without_header() a symbolic s and write_into_vec summarised as
   "appends exactly s bytes" (justified by A); z3 decides no abort and header == specification for ALL s at once.
C. readers consume exactly what the header announces: every sync reader entry point (opcode-enum readers and typed
   expect helpers, per expansion and direction) is executed on an abstract stream with symbolic header bytes; the body
   buffer has symbolic length; the dispatch is cut. z3 decides consumed == size field width + size field value, and
   that the opcode/body size handed to the dispatcher are the header's."""
import json
import os
import re
import time
import z3
from ..common import Check, log, seed
from .. import wowm, messages, native
from ..mirsym import (Prog, Exec, Agg, Ref, Cell, EnumV, SymEnum, SliceRef, VecV, StreamV, Opaque, Unsupported, BV, concrete)
from ..inventory import Inventory
from ..models import ok, deref
from . import c01

PROP = 'C02'
EXPS = ('vanilla', 'tbc', 'wrath')


def items():
    it = {}
    for e in EXPS:
        it['ws_' + e] = ('pub fn c02_ws_%s(m: &wow_world_messages::%s::SMSG_WARDEN_DATA, v: &mut Vec<u8>) -> Result<(), std::io::Error> '
                         '{ wow_world_messages::%s::ServerMessage::write_unencrypted_server(m, v) }' % (e, e, e))
        it['wc_' + e] = ('pub fn c02_wc_%s(m: &wow_world_messages::%s::CMSG_WARDEN_DATA, v: &mut Vec<u8>) -> Result<(), std::io::Error> '
                         '{ wow_world_messages::%s::ClientMessage::write_unencrypted_client(m, v) }' % (e, e, e))
        it['rs_' + e] = ('pub fn c02_rs_%s(r: &mut &[u8]) -> Result<wow_world_messages::%s::opcodes::ServerOpcodeMessage, wow_world_messages::errors::ExpectedOpcodeError> '
                         '{ wow_world_messages::%s::opcodes::ServerOpcodeMessage::read_unencrypted(r) }' % (e, e, e))
        it['rc_' + e] = ('pub fn c02_rc_%s(r: &mut &[u8]) -> Result<wow_world_messages::%s::opcodes::ClientOpcodeMessage, wow_world_messages::errors::ExpectedOpcodeError> '
                         '{ wow_world_messages::%s::opcodes::ClientOpcodeMessage::read_unencrypted(r) }' % (e, e, e))
        it['es_' + e] = ('pub fn c02_es_%s(r: &mut &[u8]) -> Result<wow_world_messages::%s::SMSG_WARDEN_DATA, wow_world_messages::errors::ExpectedOpcodeError> '
                         '{ wow_world_messages::%s::expect_server_message::<wow_world_messages::%s::SMSG_WARDEN_DATA, _>(r) }' % (e, e, e, e))
        it['ec_' + e] = ('pub fn c02_ec_%s(r: &mut &[u8]) -> Result<wow_world_messages::%s::CMSG_WARDEN_DATA, wow_world_messages::errors::ExpectedOpcodeError> '
                         '{ wow_world_messages::%s::expect_client_message::<wow_world_messages::%s::CMSG_WARDEN_DATA, _>(r) }' % (e, e, e, e))
    return it


SERVER_OPCODE = 0x2E6
CLIENT_OPCODE = 0x2E7


def header_spec(exp, side, s):
    """specification (wowm_language/src/ir/implementing_world.md): returns (list of header byte terms, constraint on s).
    s: 32-bit body length."""
    if side == 'server':
        field = s + 2
        op = [BV(SERVER_OPCODE & 0xFF, 8), BV(SERVER_OPCODE >> 8, 8)]
        if exp == 'wrath':
            large = z3.UGT(field, 0x7FFF)
            two = [z3.Extract(15, 8, field), z3.Extract(7, 0, field)] + op
            three = [z3.Extract(23, 16, field) | 0x80, z3.Extract(15, 8, field), z3.Extract(7, 0, field)] + op
            return ('wrath', large, two, three), z3.ULE(s, 0x7FFFFF - 2)
        return [z3.Extract(15, 8, field), z3.Extract(7, 0, field)] + op, z3.ULE(s, 0xFFFF - 2)
    field = s + 4
    op = [BV(CLIENT_OPCODE & 0xFF, 8), BV(CLIENT_OPCODE >> 8, 8), BV(0, 8), BV(0, 8)]
    return [z3.Extract(15, 8, field), z3.Extract(7, 0, field)] + op, z3.ULE(s, 0xFFFF - 4)


def check_writer(ck, ex, root, exp, side, pending):
    s = z3.BitVec('s', 32)
    spec, rng = header_spec(exp, side, s)

    def stub_size(ex_, callee, args):
        return s

    def stub_write(ex_, callee, args):
        v = deref(ex_, args[1], VecV)
        if v.tail is not None:
            raise Unsupported('second body write')
        v.tail = z3.ZeroExt(32, s)
        return ok(Agg([]))
    ex.stubs = [('WARDEN_DATA as roots::wow_world_messages::Message>::size_without_header', stub_size),
                ('WARDEN_DATA as roots::wow_world_messages::Message>::write_into_vec', stub_write)]
    ex.sym_len_ok = True
    ex.set_assumptions([rng])
    holder = {}

    def mk():
        v = VecV([])
        holder['v'] = v
        return [Ref(Cell(Agg([VecV([])]))), Ref(Cell(v))]

    def keep(P):
        P.env['out'] = holder['v']
    paths = ex.explore_guided(root['key'], mk, on_path=keep)
    name = 'wow_world_messages::%s::%s::write_unencrypted_%s' % (exp, 'ServerMessage' if side == 'server' else 'ClientMessage', side)
    nq = 0
    for P in paths:
        if P.status == 'unsupported':
            ck.inconclusive.append('%s: %s' % (name, P.detail))
            continue
        if P.status == 'infeasible':
            continue

        def model_s(extra):
            sol = z3.Solver()
            sol.add(rng, *P.pc)
            sol.add(*extra)
            if sol.check() == z3.sat:
                return sol.model()
            return None
        if P.status != 'ret':
            # the set of body lengths that abort: report the smallest and largest
            o = z3.Optimize()
            o.add(rng, *P.pc)
            o.minimize(s)
            lo = o.model().eval(s, model_completion=True).as_long() if o.check() == z3.sat else None
            o = z3.Optimize()
            o.add(rng, *P.pc)
            o.maximize(s)
            hi = o.model().eval(s, model_completion=True).as_long() if o.check() == z3.sat else None
            nq += 2
            if lo is not None:
                pending.append({'key': name + '/abort@%#x..=%#x' % (lo, hi), 'what': 'writing aborts (%s %s) for every body length in %#x..=%#x' % (P.status, P.detail[:80], lo, hi), 'exp': exp, 'side': side, 's': lo, 'kind': 'abort'})
            continue
        out = P.env['out']
        res = P.result
        alts = [(z3.BoolVal(True), res.d, res.f)] if isinstance(res, EnumV) else res.alts
        for c, d, f in alts:
            if d != 0:
                m = model_s([c])
                nq += 1
                if m is not None:
                    pending.append({'key': name + '/err', 'what': 'writer returns Err', 'exp': exp, 'side': side, 's': m.eval(s, model_completion=True).as_long(), 'kind': 'err'})
                continue
            hdr = out.lst
            tail = out.tail
            if tail is None:
                pending.append({'key': name + '/body', 'what': 'body was not written', 'exp': exp, 'side': side, 's': 0, 'kind': 'body'})
                continue
            bad = [tail != z3.ZeroExt(32, s)]
            if isinstance(spec, tuple):
                _, large, two, three = spec
                if len(hdr) == 4:
                    bad.append(large)
                    bad += [h != t for h, t in zip(hdr, two)]
                elif len(hdr) == 5:
                    bad.append(z3.Not(large))
                    bad += [h != t for h, t in zip(hdr, three)]
                else:
                    bad.append(z3.BoolVal(True))
            else:
                if len(hdr) != len(spec):
                    bad.append(z3.BoolVal(True))
                else:
                    bad += [h != t for h, t in zip(hdr, spec)]
            m = model_s([c, z3.Or(*bad)])
            nq += 1
            if m is not None:
                sv = m.eval(s, model_completion=True).as_long()
                got = [m.eval(h, model_completion=True).as_long() for h in hdr]
                pending.append({'key': name + '/header', 'what': 'header for a %d-byte body is %s, which is not the %s form the specification requires' % (sv, ' '.join('%02x' % g for g in got), 'size+opcode'),
                                'exp': exp, 'side': side, 's': sv, 'kind': 'header', 'got': got})
    ex.stubs = []
    ex.sym_len_ok = False
    return len(paths), nq


def check_reader(ck, ex, root, exp, side, entry, pending):
    """side: which messages are read ('server' messages by the client's reader)"""
    hlen = 4 if side == 'server' else 6
    maxh = 5 if (side == 'server' and exp == 'wrath') else hlen
    head = [z3.BitVec('h%d' % i, 8) for i in range(maxh)]
    rec = {}

    def stub_dispatch(ex_, callee, args):
        rec['args'] = args
        return ok(Opaque('message'))
    # opcode-enum readers: the dispatcher is cut; typed helpers: only the message's own body reader is cut, so the
    # opcode comparison of the helper is part of what is checked
    ex.stubs = [('::read_opcodes', stub_dispatch), ('WARDEN_DATA as roots::wow_world_messages::Message>::read_body', stub_dispatch),
                ('::opcode_to_name', lambda ex_, callee, args: Opaque('opcode name'))]   # the printable name of an opcode plays no role in framing
    ex.sym_len_ok = True
    h = head
    oplen = 2 if side == 'server' else 4
    if side == 'server' and exp == 'wrath':
        large = (h[0] & 0x80) != 0
        field = z3.If(large, z3.Concat(BV(0, 8), h[0] & 0x7F, h[1], h[2]), z3.Concat(BV(0, 16), h[0], h[1]))
        flen = z3.If(large, BV(3, 64), BV(2, 64))
        opcode = z3.If(large, z3.Concat(h[4], h[3]), z3.Concat(h[3], h[2]))
    else:
        field = z3.Concat(BV(0, 16), h[0], h[1])
        flen = BV(2, 64)
        opcode = z3.Concat(h[3], h[2]) if side == 'server' else z3.Concat(h[5], h[4], h[3], h[2])
    # headers a conforming writer can emit (B): the size field counts at least the opcode; the 3-byte form is only used when needed
    valid = [z3.UGE(field, oplen)]
    ex.set_assumptions(valid)
    holder = {}

    def mk():
        st = StreamV(list(head))
        holder['st'] = st
        return [Ref(Cell(Ref(Cell(st))))]

    def keep(P):
        P.env['st'] = holder['st']
        P.env['rec'] = dict(rec)
        rec.clear()
    name = 'wow_world_messages::%s::%s (%s messages)' % (exp, 'opcodes::%sOpcodeMessage::read_unencrypted' % ('Server' if side == 'server' else 'Client') if entry == 'enum' else 'expect_%s_message' % side, side)
    paths = ex.explore_guided(root['key'], mk, on_path=keep)
    nq = 0
    for P in paths:
        if P.status == 'unsupported':
            ck.inconclusive.append('%s: %s' % (name, P.detail))
            continue
        if P.status in ('infeasible',):
            continue
        sol = z3.Solver()
        sol.add(*valid)
        sol.add(*P.pc)
        if P.status != 'ret':
            nq += 1
            if sol.check() == z3.sat:
                m = sol.model()
                hb = [m.eval(x, model_completion=True).as_long() for x in head]
                pending.append({'key': name + '/abort', 'what': 'reader ends in %s %s for header %s' % (P.status, P.detail[:80], ' '.join('%02x' % b for b in hb)), 'exp': exp, 'side': side, 'entry': entry, 'header': hb, 'kind': 'abort'})
            continue
        st = P.env['st']
        pos = st.pos if not isinstance(st.pos, int) else BV(st.pos, 64)
        want = flen + z3.ZeroExt(32, field)
        bad = [pos != want]
        badop = []
        a = P.env['rec'].get('args')
        if entry == 'expect':
            from .c04 import err_kind_names
            expected = SERVER_OPCODE if side == 'server' else CLIENT_OPCODE
            op32 = z3.ZeroExt(32 - opcode.size(), opcode) if opcode.size() < 32 else opcode
            res = P.result
            ralts = [(z3.BoolVal(True), res.d, res.f)] if isinstance(res, EnumV) else res.alts
            _, enames = err_kind_names(type('R', (), {'prog': ex.p})(), root)
            for c, d, f in ralts:
                if d == 0:
                    badop.append(z3.And(c, op32 != expected))       # a different opcode decoded as this message
                else:
                    e = f[0]
                    ealts = [(z3.BoolVal(True), e.d, e.f)] if isinstance(e, EnumV) else (e.alts if isinstance(e, SymEnum) else [])
                    for c2, d2, f2 in ealts:
                        if enames[d2] == 'Opcode':
                            got = f2[0]
                            badop.append(z3.And(c, c2, z3.Or(op32 == expected, got != op32)))   # must report the offending opcode
        elif a is None:
            # the dispatcher was not reached although the header is well-formed (e.g. early error)
            res = P.result
            if isinstance(res, EnumV) and res.d == 0:
                bad.append(z3.BoolVal(True))
        else:
            # read_opcodes(opcode, body_size, buf) / read_*_body(buf, size, opcode)
            ints = [x for x in a if z3.is_expr(x)]
            if 'read_opcodes' in root['name'] or entry == 'enum':
                op_a, size_a = ints[0], ints[1]
                bad.append(z3.ZeroExt(32 - op_a.size(), op_a) != z3.ZeroExt(32 - opcode.size(), opcode) if op_a.size() < 32 or opcode.size() < 32 else op_a != opcode)
                bad.append(size_a != field - oplen)
        if badop:
            sol.push()
            sol.add(z3.Or(*badop))
            nq += 1
            if sol.check() == z3.sat:
                m = sol.model()
                hb = [m.eval(x, model_completion=True).as_long() for x in head]
                opv = m.eval(opcode, model_completion=True).as_long()
                pending.append({'key': name + '/opcode', 'what': 'header %s carries opcode %#x: the helper does not reject it with the opcode error reporting that number' % (' '.join('%02x' % b for b in hb), opv),
                                'exp': exp, 'side': side, 'entry': entry, 'header': hb, 'kind': 'opcode', 'opcode': opv, 'want': m.eval(want, model_completion=True).as_long()})
            sol.pop()
        sol.add(z3.Or(*bad))
        nq += 1
        if sol.check() == z3.sat:
            m = sol.model()
            hb = [m.eval(x, model_completion=True).as_long() for x in head]
            pending.append({'key': name + '/consumed', 'what': 'for header %s the reader consumes %s bytes, the header announces %s' % (' '.join('%02x' % b for b in hb), m.eval(pos, model_completion=True), m.eval(want, model_completion=True)),
                            'exp': exp, 'side': side, 'entry': entry, 'header': hb, 'kind': 'consumed', 'want': m.eval(want, model_completion=True).as_long()})
    ex.stubs = []
    ex.sym_len_ok = False
    return len(paths), nq


def rust_case(p):
    exp, side = p['exp'], p['side']
    if p['kind'] in ('abort', 'err', 'header', 'body') and 's' in p:
        ty = 'SMSG_WARDEN_DATA' if side == 'server' else 'CMSG_WARDEN_DATA'
        tr, fn = ('ServerMessage', 'write_unencrypted_server') if side == 'server' else ('ClientMessage', 'write_unencrypted_client')
        return ('{ use wow_world_messages::%s::%s; let m = wow_world_messages::%s::%s { encrypted_data: vec![0u8; %d] }; let mut v = Vec::new(); m.%s(&mut v).unwrap(); '
                'format!("HDR {} LEN {}", v[..6.min(v.len())].iter().map(|b| format!("{:02x}", b)).collect::<Vec<_>>().join(" "), v.len()) }') % (exp, tr, exp, ty, p['s'], fn)
    # reader: frame = header + zero body of the announced size (capped), plus 8 sentinel bytes that must stay unread
    hb = p['header']
    want = p.get('want', 0)
    body = max(0, min(want, 1 << 24) - len(hb))
    en = 'ServerOpcodeMessage' if side == 'server' else 'ClientOpcodeMessage'
    call = ('wow_world_messages::%s::opcodes::%s::read_unencrypted(&mut r).map(|_| ())' % (exp, en)) if p['entry'] == 'enum' else \
        ('wow_world_messages::%s::expect_%s_message::<wow_world_messages::%s::%s, _>(&mut r).map(|_| ())' % (exp, side, exp, 'SMSG_WARDEN_DATA' if side == 'server' else 'CMSG_WARDEN_DATA'))
    return ('{ let mut bytes: Vec<u8> = vec![%s]; bytes.extend(std::iter::repeat(0u8).take(%d)); bytes.extend([0xAAu8; 8]); let total = bytes.len(); let mut r = &bytes[..]; let res = %s; '
            'format!("CONSUMED {} EXPECTED {} {:?}", total - r.len(), %d, res) }') % (', '.join(str(b) for b in hb), body, call.replace('.map(|_| ())', '.map(|_| "decoded")'), want)


def confirms(p, o):
    if not o or o[0] is None:
        return False
    for out in o:
        if out is None:
            continue
        if out.startswith('PANIC'):
            return True
        if p['kind'] == 'header' and out.startswith('HDR'):
            got = ' '.join('%02x' % g for g in p.get('got', []))
            return True if got and out[4:4 + len(got)] == got else False
        if p['kind'] == 'opcode' and out.startswith('CONSUMED'):
            if 'Ok(' in out:
                return True
            mm = re.search(r'Opcode \{ opcode: (\d+)', out)
            if mm and int(mm.group(1)) != p['opcode']:
                return True
        if p['kind'] == 'consumed' and out.startswith('CONSUMED'):
            t = out.split()
            if t[1] != t[3]:
                return True
    return False


def run(tier, only=None):
    ck = Check(PROP, tier, 'model_checking')
    corpus = wowm.Corpus()
    t0 = time.time()
    # ---- part A: size == bytes written, through the C01 machinery (restricted reporting)
    ncov = {'messages': 0, 'shapes': 0}
    name_filter = only if only and only not in ('A', 'BC') else None
    if not only or only == 'A' or name_filter:
        import multiprocessing as mp
        from ..common import NCPU
        from .. import encode
        sd = seed()
        for kind in ('login', 'world'):
            prog, inv, res, dropped = messages.build(kind, corpus)
            targets = messages.world_targets(corpus) if kind == 'world' else messages.login_targets(corpus)
            idxs = [i for i in range(len(targets)) if not name_filter or name_filter in targets[i][2]]
            if not idxs:
                continue
            nproc = min(NCPU, len(idxs))
            chunks = [c for c in (idxs[j::nproc * 4] for j in range(nproc * 4)) if c]
            with mp.Pool(nproc) as pool:
                results = pool.map(c01.worker, [(prog.path, kind, 'quick-sizes' if tier == 'quick' else tier, sd, c) for c in chunks], chunksize=1)
            for out, q, ss, stats, fns in results:
                for r in out:
                    ncov['messages'] += 1
                    ncov['shapes'] += r['shapes']
                    for i in r['inc']:
                        if 'unsupported' not in i:
                            ck.inconclusive.append(i)
                    for f in r['findings']:
                        if f['kind'] in ('size', 'length'):
                            view, cont, path = targets[r['idx']]
                            frame = c01.frame_bytes(kind, cont, view, f['body'])
                            rust = c01.rust_replay(kind, cont, view, path, frame)
                            o = native.eval_cases('world' if kind == 'world' else 'login', [('x', rust)])['x']
                            f2 = dict(f, frame=frame)
                            ck.violation('%s/%s' % (path, f['kind']), '%s native=%r' % (f['what'], o), dict(f2, message=path, rust=rust, kind_of_message=kind), confirmed=c01.native_confirms(f2, o))
    # ---- parts B and C
    prog_path, dropped = None, {}
    from .. import mirdump
    out, dropped = mirdump.dump_items('framing_world', ['wow_world_messages', 'wow_world_base'], items(), [], extra_rs=messages.TEMPLATES)
    for k, why in dropped.items():
        ck.violation('entry/' + k, 'public framing entry point does not compile: ' + why, {'item': k, 'error': why})
    prog = Prog(out)
    inv = Inventory(prog)
    ex = Exec(prog)
    ex.max_paths = 200
    pending = []
    npaths = nq = nobl = 0
    for e in EXPS:
        for side, pre in (('server', 'ws_'), ('client', 'wc_')):
            root = inv.local.get('c02_' + pre + e)
            if not root:
                continue
            try:
                a, b = check_writer(ck, ex, root, e, side, pending)
                npaths += a
                nq += b
                nobl += 1
                ck.sample({'obligation': 'B', 'entry': root['name'], 'body_lengths': 'all s with s+%d <= %s' % (2 if side == 'server' else 4, '0x7FFFFF' if (e == 'wrath' and side == 'server') else '0xFFFF'), 'paths': a})
            except Unsupported as x:
                ck.inconclusive.append('writer %s %s: %s' % (e, side, x))
        for side, entry, pre in (('server', 'enum', 'rs_'), ('client', 'enum', 'rc_'), ('server', 'expect', 'es_'), ('client', 'expect', 'ec_')):
            root = inv.local.get('c02_' + pre + e)
            if not root:
                continue
            try:
                a, b = check_reader(ck, ex, root, e, side, entry, pending)
                npaths += a
                nq += b
                nobl += 1
                if entry == 'enum' and side == 'server':
                    ck.sample({'obligation': 'C', 'entry': root['name'], 'header_bytes': 'all values a conforming writer can emit', 'paths': a})
            except Unsupported as x:
                ck.inconclusive.append('reader %s %s %s: %s' % (e, side, entry, x))
    # native replay
    cases = []
    for i, p in enumerate(pending):
        if ck.known.match(PROP, p['key']) is None:
            p['rust'] = rust_case(p)
            cases.append((str(i), p['rust']))
    outs = {}
    if cases:
        try:
            outs = native.eval_cases('world', cases, timeout=600)
        except Exception as x:
            ck.inconclusive.append('native replay failed to build: %s' % str(x)[-400:])
    for i, p in enumerate(pending):
        o = outs.get(str(i))
        ck.violation(p['key'], '%s native=%r' % (p['what'], o), dict(p, native=o), confirmed=confirms(p, o))
    ck.assume('B: size_without_header() is a symbolic u32 and write_into_vec appends exactly that many bytes (obligation A); representative message types SMSG/CMSG_WARDEN_DATA (the default trait methods are the same MIR for every message); overridden writers of compressed messages are not covered')
    ck.assume('C: read_opcodes / read_*_body are cut (uninterpreted); the stream is unbounded; headers restricted to those a conforming writer emits (size field >= opcode width)')
    ck.assume('tokio/async-std entry points are related to the sync ones by C06; encrypted variants by C05')
    ck.assume('header specification: wowm_language/src/ir/implementing_world.md (size field = opcode + body, big endian; Wrath server 3-byte form with 0x80 marker exactly when the value exceeds 0x7FFF)')
    return ck.finish({'states': max(nobl + ncov['shapes'], 1), 'transitions': max(npaths, 1), 'traces_validated_against_impl': len(pending), 'A_messages': ncov['messages'], 'A_shapes': ncov['shapes'],
                      'BC_entry_points': nobl, 'BC_paths': npaths, 'BC_queries': nq, 'functions_encoded_count': len(ex.fns_reached), 'functions_encoded': sorted(ex.fns_reached)[:60],
                      'bounds': 'B/C: none on the body length / header bytes (symbolic); A: shapes as in C01 with the smaller cap',
                      'rule': 'A per (message, shape); B per writer entry: all body lengths at once; C per reader entry: all header bytes at once'}, fail_on_inconclusive=False)


def replay(path):
    j = json.load(open(path))
    if not j.get('rust'):
        print(j.get('what'))
        return 1
    o = native.eval_cases('world' if j.get('kind_of_message') != 'login' else 'login', [('x', j['rust'])])['x']
    print('native:', o)
    bad = confirms(j, o) if 'exp' in j else c01.native_confirms(j, o)
    if bad:
        print('VIOLATION property=%s replay=%s' % (PROP, path))
        return 1
    return 0
