"""C09 - computed minimum/maximum sizes bound every valid encoding.
The size guard compiled into every world decoder is extracted by MIRSYM (read_inner executed with a symbolic
body_size: the accepted set G is read off the path conditions). z3 then decides that G contains (i) the true minimal
and maximal encoded length computed over the whole conditional structure of the wowm definition (vf/sizes.py, counts
and string lengths in their full type ranges, capped by the largest body a frame can carry) and (ii) the length of
every covered canonical shape; a guard that accepts a single size must equal the one possible length."""
import json
import multiprocessing as mp
import os
import re
import time
import traceback
import z3
from ..common import Check, log, NCPU, seed
from .. import wowm, messages, encode, sizes
from ..codec import CodecRunner
from ..mirsym import Unsupported, Ref, Cell, SliceRef, EnumV, SymEnum, BV
from .c04 import err_kind_names

PROP = 'C09'


def frame_cap(view, cont):
    if cont['k'] == 'smsg':
        return (0x7FFFFF - 2) if view['exp'] == 'wrath' else (0xFFFF - 2)
    return 0xFFFF - 4


def guard_set(R, fns):
    """formula G(s) over the symbolic body size s: sizes that pass the guard"""
    s = z3.BitVec('body_size', 32)
    _, names = err_kind_names(R, fns['read'])
    R.ex.set_assumptions([])
    rejected = []
    for P in R.ex.explore_guided(fns['read']['key'], lambda: [Ref(Cell(SliceRef([], 0, 0))), s]):
        if P.status == 'unsupported':
            raise Unsupported(P.detail)
        if P.status != 'ret':
            continue
        for c, d, f in R.result_alts(P.result):
            if d == 0:
                continue
            e = f[0]
            alts = [(z3.BoolVal(True), e.d, e.f)] if isinstance(e, EnumV) else e.alts
            for c2, d2, f2 in alts:
                if names[d2] == 'InvalidSize':
                    rejected.append(z3.And(*(P.pc + [c, c2])))
    G = z3.Not(z3.Or(*rejected)) if rejected else z3.BoolVal(True)
    return s, G


def extremum(s, G, maximize):
    o = z3.Optimize()
    o.set('timeout', 20000)
    o.add(G)
    h = o.maximize(s) if maximize else o.minimize(s)
    if o.check() != z3.sat:
        return None
    return o.model().eval(s, model_completion=True).as_long()


def worker(job):
    dump, tier, sd, idxs = job
    corpus = wowm.Corpus()
    targets = messages.world_targets(corpus)
    R = CodecRunner(dump)
    from ..inventory import Inventory
    inv = Inventory(R.prog)
    lib = open(os.path.join(os.path.dirname(dump), 'src', 'lib.rs')).read().splitlines()
    item_fn = {}
    for line in lib:
        m = re.search(r'pub fn (\w+)\(.*/\*ITEM:(.*?)\*/', line)
        if m:
            item_fn[m.group(2)] = m.group(1)
    bounds = encode.Bounds(tier)
    out = []
    for i in idxs:
        view, cont, path = targets[i]
        r = {'path': path, 'idx': i, 'findings': [], 'inc': [], 'file': cont['file'], 'shapes': 0}
        try:
            fn = item_fn.get('ty|' + path)
            t = R.prog.tk(inv.type_of_local_arg(fn, 0))['Ref'][1]
            fns = messages.codec_fns(inv, t, 'world')
            if 'read' not in fns:
                raise Unsupported('read_inner not found')
            if corpus.tag(cont, 'compressed') is not None:
                raise Unsupported('compressed message (length of the compressed form is not defined by the wowm)')
            s, G = guard_set(R, fns)
            gmin, gmax = extremum(s, G, False), extremum(s, G, True)
            r['guard'] = [gmin, gmax]
            lo, hi = sizes.Sizer(corpus, view).container(cont)
            cap = frame_cap(view, cont)
            hi_c = hi if hi <= cap else cap
            r['true'] = [lo, None if hi == sizes.INF else hi, hi_c]

            def accepted(n):
                R.queries += 1
                sol = z3.Solver()
                sol.add(G, s == n)
                return sol.check() == z3.sat
            if not accepted(lo):
                r['findings'].append({'kind': 'min', 'what': 'shortest valid encoding has %d bytes but the decoder only accepts sizes %s..=%s' % (lo, gmin, gmax), 'len': lo})
            if not accepted(hi_c):
                r['findings'].append({'kind': 'max', 'what': 'a valid encoding of %d bytes%s is rejected: the decoder only accepts sizes %s..=%s' % (hi_c, ' (largest that fits a frame)' if hi > cap else '', gmin, gmax), 'len': hi_c})
            if gmin is not None and gmin == gmax and not (lo == hi == gmin):
                r['findings'].append({'kind': 'constant', 'what': 'decoder treats the message as constant-sized (%d) but valid encodings range over %d..%s' % (gmin, lo, hi), 'len': lo})
            # constructive witnesses: every covered canonical shape
            lens = set()
            for enc, ch in encode.shapes(corpus, view, cont, bounds, sd):
                r['shapes'] += 1
                n = len(enc.bytes)
                if n in lens:
                    continue
                lens.add(n)
                if R.sat(enc.cons) is None:
                    continue
                if not accepted(n):
                    r['findings'].append({'kind': 'shape', 'what': 'canonical encoding of %d bytes [shape %s] is outside the accepted sizes %s..=%s' % (n, ';'.join('%s=%d' % (l.split('.', 1)[-1], c) for l, nn, c in ch.seen)[:120], gmin, gmax), 'len': n})
                    break
                if not (lo <= n <= hi):
                    r['inc'].append('%s: reader inconsistency: shape length %d outside computed %d..%s' % (path, n, lo, hi))
        except encode.NotSupported as e:
            r['inc'].append('%s: unsupported by the reader: %s' % (path, e))
        except Unsupported as e:
            r['inc'].append('%s: %s' % (path, str(e)[:300]))
        except Exception:
            r['inc'].append('%s: checker exception %s' % (path, traceback.format_exc()[-500:]))
        out.append(r)
    return out, R.queries, sorted(R.ex.fns_reached)


def ir_sizes(ck, only):
    """the sizes objects the real generator computes now (intermediate_representation.json written on a scratch copy):
    minimum_size <= true minimum and maximum_size >= true maximum (vf/sizes.py) for every container of every view"""
    from .. import gen
    from .c10 import ir_covers
    n = 0
    scratch, out, rc = gen.regenerate()
    try:
        if rc != 0:
            ck.inconclusive.append('generator exits with status %d: IR sizes not compared' % rc)
            return 0
        ir = json.load(open(os.path.join(scratch, 'intermediate_representation.json')))
        corpus = wowm.Corpus(os.path.join(scratch, 'wow_message_parser', 'wowm'))
        views = [('world', e, corpus.world_view(e)) for e in ('vanilla', 'tbc', 'wrath')] + [('login', v, corpus.login_view(v)) for v in wowm.LOGIN_ALL]
        for kind, target, view in views:
            sec = ir['world' if kind == 'world' else 'login']
            sz = sizes.Sizer(corpus, view)
            for o in sec['structs'] + sec['messages']:
                if not ir_covers(o['tags'], kind, target) or (only and only not in o['name']):
                    continue
                cont = view['containers'].get(o['name'])
                if cont is None or corpus.tag(cont, 'compressed') is not None:
                    continue
                try:
                    lo, hi = sz.container(cont)
                except (encode.NotSupported, Exception):
                    continue
                n += 1
                imin, imax = o['sizes']['minimum_size'], o['sizes']['maximum_size']
                key = 'ir-sizes/%s/%s/%s' % (kind, target, o['name'])
                if imin > lo:
                    ck.violation(key + '/min', '%s (%s %s): the generator computes minimum_size %d but a valid encoding has %d bytes' % (o['name'], kind, target, imin, lo), {'ir': o['sizes'], 'true': [lo, None if hi == sizes.INF else hi]}, confirmed=True)
                cap = 0xFFFF if kind == 'world' else 0xFFFF
                if imax < min(hi, cap) and imax < cap:
                    ck.violation(key + '/max', '%s (%s %s): the generator computes maximum_size %d but a valid encoding can have %s bytes' % (o['name'], kind, target, imax, 'unboundedly many' if hi == sizes.INF else hi), {'ir': o['sizes'], 'true': [lo, None if hi == sizes.INF else hi]}, confirmed=True)
        ck.sample({'ir_sizes_objects_compared': n})
    finally:
        gen.cleanup()
    return n


def run(tier, only=None):
    ck = Check(PROP, tier, 'model_checking')
    corpus = wowm.Corpus()
    sd = seed()
    prog, inv, res, dropped = messages.build('world', corpus)
    targets = messages.world_targets(corpus)
    idxs = [i for i, (v, c, p) in enumerate(targets) if not only or (re.search(only, p) if '|' in only else only in p)]
    nproc = min(NCPU, max(1, len(idxs)))
    chunks = [c for c in (idxs[j::nproc * 4] for j in range(nproc * 4)) if c]
    with mp.Pool(nproc) as pool:
        results = pool.map(worker, [(prog.path, tier, sd, c) for c in chunks], chunksize=1)
    nm = nq = nshapes = 0
    fns_all = set()
    for out, q, fns in results:
        nq += q
        fns_all.update(fns)
        for r in out:
            nm += 1
            nshapes += r['shapes']
            ck.inconclusive.extend(r['inc'])
            if 'true' in r and len(ck.cov['samples']) < 10 and r['true'][0] != r['true'][2]:
                ck.sample({'message': r['path'], 'guard_accepts': r['guard'], 'true_min': r['true'][0], 'true_max': r['true'][1], 'frame_capped_max': r['true'][2], 'shapes': r['shapes']})
            for f in r['findings']:
                key = '%s/%s' % (r['path'], f['kind'])
                ck.violation(key, f['what'], dict(f, message=r['path'], guard=r.get('guard'), true=r.get('true')), confirmed=True)
    ir_n = ir_sizes(ck, only) if not os.environ.get('VERIF_C09_NO_IR') else 0
    ck.assume('the accepted size set is extracted from the compiled guard of read_inner; the sizes objects of the regenerated IR (all views, structs and messages) are compared with the same true extrema (minimum_size <= min, maximum_size >= max up to the 65535 cap)')
    ck.assume('lengths: vf/sizes.py; CString <= 255 characters, String <= 255, arrays with 8/16-bit counts over their full range, arrays with 32-bit counts and endless arrays: only counts up to 3 are required to be accepted (the definition states no limit; larger counts fall under the implementation\'s allocation limits), SizedCString text <= 8000 bytes (implementation limit), all capped by the largest body a frame can carry')
    ck.assume('login messages carry no size guard and are outside this check')
    return ck.finish({'states': max(nm, 1), 'transitions': max(nq, 1), 'traces_validated_against_impl': 0, 'messages': nm, 'shapes_as_witnesses': nshapes, 'queries': nq,
                      'functions_encoded_count': len(fns_all), 'functions_encoded': sorted(fns_all)[:40],
                      'bounds': 'body_size: all 2^32 values symbolic; element counts and string lengths: full type ranges (interval arithmetic), no unrolling',
                      'rule': 'per world message: G = sizes passing the compiled guard (from MIR path conditions); z3 decides min_len in G, max_len in G, constant-size consistency, and len(shape) in G for every covered shape'},
                     fail_on_inconclusive=False)


def replay(path):
    j = json.load(open(path))
    print(j.get('what'))
    print('VIOLATION property=%s replay=%s' % (PROP, path))
    return 1
