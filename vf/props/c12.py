"""C12 - generated flag types obey set algebra over exactly their declared bits.
Deciding engine: MIRSYM (MIR -> z3): every method of every flag type is executed with the raw value(s) as free
bit-vectors and compared with the spec derived from the wowm definition by the independent reader."""
import json
import multiprocessing as mp
import os
import time
import z3
from ..common import Check, log, NCPU, seed
from .. import wowm, definers, native
from ..mirsym import Prog, Exec, Agg, Ref, Cell, EnumV, SymEnum, Unsupported, concrete, BV
from ..inventory import Inventory

PRELUDE = '''trait FV { fn FV(&self) -> u64; }
impl<T: std::fmt::LowerHex> FV for T { fn FV(&self) -> u64 { u64::from_str_radix(&format!("{:x}", self), 16).unwrap() } }'''
INT_TYPES = {'u8': (8, False), 'u16': (16, False), 'u32': (32, False), 'u64': (64, False), 'usize': (64, False),
             'i8': (8, True), 'i16': (16, True), 'i32': (32, True), 'i64': (64, True), 'isize': (64, True)}


def flag_spec(corpus, d):
    w = wowm.int_type_info(d['ty'])[0] * 8
    if w == 48:
        w = 64   # u48 flags are carried in a u64
    return {'name': d['name'], 'width': w, 'zero_valid': corpus.tag(d, 'zero_is_always_valid') == 'true',
            'fields': [(f['name'], f['value']) for f in d['fields']], 'file': d['file']}


class Runner:
    def __init__(self, dump):
        self.prog = Prog(dump)
        self.ex = Exec(self.prog)
        self.queries = 0

    def run(self, key, mk):
        """mk() -> (args, observe) ; returns list of (status, detail, pc, result, observed)"""
        holder = {}

        def mk_args():
            args, obs = mk()
            holder['obs'] = obs
            return args
        outs = []
        for P in self.ex.explore(key, mk_args):
            obs = None
            if P.status == 'ret' and holder.get('obs'):
                obs = holder['obs']()
            outs.append((P.status, P.detail, P.pc, P.result, obs))
        return outs

    def differs(self, pc, got, want):
        """is there an assignment under pc with got != want ? returns model or None; raises on unknown"""
        self.queries += 1
        s = z3.Solver()
        s.set('timeout', 20000)
        for c in pc:
            s.add(c)
        s.add(got != want)
        r = s.check()
        if r == z3.sat:
            return s.model()
        if r == z3.unknown:
            raise Unsupported('solver unknown')
        return None


def flag_val(v):
    return Agg([v])


def inner_of(x):
    if isinstance(x, Agg) and len(x.f) == 1:
        return x.f[0]
    return x


def check_type(R, spec, methods, path):
    """returns (violations, inconclusive, nqueries, functions)"""
    w = spec['width']
    viol = []
    inc = []
    funcs = []
    v = z3.BitVec('v', w)
    u = z3.BitVec('u', w)
    allbits = 0
    for _, val in spec['fields']:
        allbits |= val

    def model_int(m, var):
        x = m.eval(var, model_completion=True)
        return x.as_long()

    def one(mname, key, mk, want_fn, inputs, rust_expr):
        """want_fn(result, observed) -> list of (got term, want term, label)"""
        funcs.append(mname)
        try:
            outs = R.run(key, mk)
        except Unsupported as e:
            inc.append('%s::%s: %s' % (path, mname, e))
            return
        for status, detail, pc, res, obs in outs:
            if status == 'unsupported':
                inc.append('%s::%s: %s' % (path, mname, detail))
                continue
            if status != 'ret':
                m = None
                s = z3.Solver()
                for c in pc:
                    s.add(c)
                if s.check() == z3.sat:
                    m = s.model()
                    vals = {n: model_int(m, var) for n, var in inputs.items()}
                    viol.append({'method': mname, 'what': 'path ends in %s %s' % (status, detail), 'inputs': vals, 'label': 'panic', 'rust': rust_expr(vals)})
                continue
            try:
                pairs = want_fn(res, obs)
            except Exception as e:
                inc.append('%s::%s: result shape %s' % (path, mname, e))
                continue
            for got, want, label in pairs:
                try:
                    m = R.differs(pc, got, want)
                except Unsupported as e:
                    inc.append('%s::%s: %s' % (path, mname, e))
                    continue
                if m is not None:
                    vals = {n: model_int(m, var) for n, var in inputs.items()}
                    g = m.eval(got, model_completion=True)
                    wv = m.eval(want, model_completion=True)
                    viol.append({'method': mname, 'label': label, 'inputs': vals, 'got': str(g), 'want': str(wv), 'what': '%s: got %s, expected %s' % (label, g, wv), 'rust': rust_expr(vals)})

    def lit(x, width=w):
        return '%du%d' % (x, width)

    # --- new / as_int / empty / is_empty / all
    get = lambda n: methods.get((None, n))
    if get('new') and get('as_int'):
        one('new', get('new')['key'], lambda: ([v], None), lambda r, o: [(inner_of(r), v, 'new(v).inner')], {'v': v},
            lambda vs: 'format!("{}", %s::new(%s).FV())' % (path, lit(vs['v'])))
        one('as_int', get('as_int')['key'], lambda: ([Ref(Cell(flag_val(v)))], None), lambda r, o: [(r, v, 'as_int')], {'v': v},
            lambda vs: 'format!("{}", %s::new(%s).FV())' % (path, lit(vs['v'])))
    else:
        viol.append({'method': 'new/as_int', 'label': 'missing', 'what': 'flag type has no new/as_int', 'inputs': {}, 'rust': None})
    if get('empty'):
        one('empty', get('empty')['key'], lambda: ([], None), lambda r, o: [(inner_of(r), BV(0, w), 'empty()')], {},
            lambda vs: 'format!("{}", %s::empty().FV())' % path)
    if get('is_empty'):
        one('is_empty', get('is_empty')['key'], lambda: ([Ref(Cell(flag_val(v)))], None), lambda r, o: [(r, v == 0, 'is_empty')], {'v': v},
            lambda vs: 'format!("{}", %s::new(%s).is_empty())' % (path, lit(vs['v'])))
    if get('all'):
        one('all', get('all')['key'], lambda: ([], None), lambda r, o: [(inner_of(r), BV(allbits, w), 'all()')], {},
            lambda vs: 'format!("{}", %s::all().FV())' % path)
    # --- per enumerator
    by_norm = {}
    for (tr, mn), r in methods.items():
        if tr is None:
            for pre in ('is_', 'new_', 'set_', 'clear_'):
                if mn.startswith(pre):
                    by_norm.setdefault((pre, mn[len(pre):]), []).append((mn, r))
    used = set()
    for fname, fval in spec['fields']:
        nn = fname.lower()
        X = BV(fval, w)
        for pre in ('is_', 'new_', 'set_', 'clear_'):
            cands = by_norm.get((pre, nn), [])
            if not cands:
                if fval != 0:
                    viol.append({'method': pre + fname.lower(), 'label': 'missing', 'what': 'no %s accessor for enumerator %s' % (pre, fname), 'inputs': {}, 'rust': None})
                continue
            mn, r = cands[0]
            used.add(mn)
            if mn == 'is_empty':
                continue   # enumerator literally named EMPTY: is_empty is the built-in emptiness test checked above
            if pre == 'is_':
                want = (v & X) != 0
                if spec['zero_valid']:
                    want = z3.Or(want, v == 0)
                one(mn, r['key'], lambda: ([Ref(Cell(flag_val(v)))], None), lambda res, o, want=want: [(res, want, mn)], {'v': v},
                    lambda vs, mn=mn: 'format!("{}", %s::new(%s).%s())' % (path, lit(vs['v']), mn))
            elif pre == 'new_':
                one(mn, r['key'], lambda: ([], None), lambda res, o, X=X: [(inner_of(res), X, mn)], {},
                    lambda vs, mn=mn: 'format!("{}", %s::%s().FV())' % (path, mn))
            else:
                want = (v | X) if pre == 'set_' else (v & ~X)

                def mk():
                    c = Cell(flag_val(v))
                    return [Ref(c)], (lambda: inner_of(c.val))
                one(mn, r['key'], mk, lambda res, o, want=want, mn=mn: [(o, want, mn + ' (self after call)'), (inner_of(res), want, mn + ' (returned value)')], {'v': v},
                    lambda vs, mn=mn: '{ let mut f = %s::new(%s); let r = f.%s(); format!("{} {}", f.FV(), r.FV()) }' % (path, lit(vs['v']), mn))
    for (pre, nn), lst in by_norm.items():
        for mn, r in lst:
            if mn not in used and pre in ('is_', 'set_', 'clear_', 'new_') and mn != 'is_empty':
                viol.append({'method': mn, 'label': 'invented', 'what': 'accessor %s corresponds to no enumerator of the wowm definition' % mn, 'inputs': {}, 'rust': None})
    # --- operators
    ops = {'BitAnd': ('bitand', lambda a, b: a & b, '&'), 'BitOr': ('bitor', lambda a, b: a | b, '|'), 'BitXor': ('bitxor', lambda a, b: a ^ b, '^')}
    for tr, (mn, f, sym) in ops.items():
        r = methods.get(('std::ops::' + tr, mn))
        if r:
            one(tr, r['key'], lambda: ([flag_val(v), flag_val(u)], None), lambda res, o, f=f: [(inner_of(res), f(v, u), tr)], {'v': v, 'u': u},
                lambda vs, sym=sym: 'format!("{}", (%s::new(%s) %s %s::new(%s)).FV())' % (path, lit(vs['v']), sym, path, lit(vs['u'])))
        else:
            viol.append({'method': tr, 'label': 'missing', 'what': 'operator %s not implemented' % tr, 'inputs': {}, 'rust': None})
        r = methods.get(('std::ops::' + tr + 'Assign', mn + '_assign'))
        if r:
            def mk():
                c = Cell(flag_val(v))
                return [Ref(c), flag_val(u)], (lambda: inner_of(c.val))
            one(tr + 'Assign', r['key'], mk, lambda res, o, f=f: [(o, f(v, u), tr + 'Assign')], {'v': v, 'u': u},
                lambda vs, sym=sym: '{ let mut f = %s::new(%s); f %s= %s::new(%s); format!("{}", f.FV()) }' % (path, lit(vs['v']), sym, path, lit(vs['u'])))
        else:
            viol.append({'method': tr + 'Assign', 'label': 'missing', 'what': 'operator %sAssign not implemented' % tr, 'inputs': {}, 'rust': None})
    # --- integer conversions
    for (tr, mn), r in sorted(methods.items(), key=lambda kv: str(kv[0])):
        if tr is None or not (tr.startswith('std::convert::From<') or tr.startswith('std::convert::TryFrom<')):
            continue
        src = tr[tr.index('<') + 1:-1]
        if src not in INT_TYPES:
            continue
        sw, ssigned = INT_TYPES[src]
        x = z3.BitVec('x', sw)
        fallible = tr.startswith('std::convert::TryFrom<')
        # spec: same width -> bit for bit; otherwise value preserving (value must be in 0..2^w)
        if sw == w:
            inrange = z3.BoolVal(True)
            conv = x
        elif sw < w:
            inrange = (x >= 0) if ssigned else z3.BoolVal(True)
            conv = z3.ZeroExt(w - sw, x)
        else:
            inrange = z3.And(x >= 0, x <= BV((1 << w) - 1, sw)) if ssigned else z3.ULE(x, BV((1 << w) - 1, sw))
            conv = z3.Extract(w - 1, 0, x)

        def want_fn(res, o, fallible=fallible, inrange=inrange, conv=conv, x=x, ssigned=ssigned):
            if not fallible:
                return [(z3.BoolVal(True), inrange, 'infallible conversion exists although some values cannot be represented'), (inner_of(res), conv, 'converted value')]
            # Result<Self, T>
            if isinstance(res, EnumV):
                alts = [(z3.BoolVal(True), res.d, res.f)]
            elif isinstance(res, SymEnum):
                alts = res.alts
            else:
                raise Exception('not a Result: %r' % (res,))
            pairs = []
            okc = z3.BoolVal(False)
            for c, dd, f in alts:
                if dd == 0:
                    okc = z3.Or(okc, c)
                    pairs.append((z3.Implies(c, inner_of(f[0]) == conv), z3.BoolVal(True), 'Ok value'))
                else:
                    pairs.append((z3.Implies(c, f[0] == x), z3.BoolVal(True), 'Err payload is the offending value'))
            okc = z3.simplify(okc)
            neg = (x < 0) if ssigned else z3.BoolVal(False)
            pairs.insert(0, (z3.And(okc, neg), z3.BoolVal(False), 'accepts-negative: a negative value is accepted'))
            pairs.insert(1, (z3.And(okc, z3.Not(neg), z3.Not(inrange)), z3.BoolVal(False), 'accepts-too-large: a value above the flag width is accepted'))
            pairs.insert(2, (z3.And(inrange, z3.Not(okc)), z3.BoolVal(False), 'rejects-representable: a representable value is rejected'))
            return pairs
        rl = (lambda vs, src=src, fallible=fallible: ('format!("{:?}", <%s as TryFrom<%s>>::try_from(%d%s).map(|f| f.FV()))' if fallible else 'format!("{}", <%s as From<%s>>::from(%d%s).FV())') % (path, src, _signed(vs['x'], INT_TYPES[src]), src))
        one('%s<%s>' % ('TryFrom' if fallible else 'From', src), r['key'], lambda x=x: ([x], None), want_fn, {'x': x}, rl)
    return viol, inc, funcs


def _signed(val, info):
    w, s = info
    if s and val >= (1 << (w - 1)):
        return val - (1 << w)
    return val


def worker(job):
    dump, items = job
    R = Runner(dump)
    inv = Inventory(R.prog)
    out = []
    for spec, ty, path in items:
        t0 = time.time()
        methods = inv.by_type.get(str(ty), {})
        try:
            viol, inc, funcs = check_type(R, spec, methods, path)
        except Exception as e:
            import traceback
            viol, inc, funcs = [], ['%s: checker exception %s' % (path, traceback.format_exc()[-400:])], []
        out.append({'path': path, 'spec': spec, 'viol': viol, 'inc': inc, 'funcs': funcs, 'secs': time.time() - t0})
    return out, R.queries, R.ex.stats, sorted(R.ex.fns_reached)


def const_check(ck, kind, prog, inv, res, item_fn, dropped):
    """declared constants equal their wowm value (constants are read through their public path)"""
    ex = Exec(prog)
    n = 0
    for v, d, path, ty in res:
        if d['k'] != 'flag':
            continue
        for f in d['fields']:
            iid = 'const|%s|%s' % (path, f['name'])
            if iid in dropped:
                ck.violation('%s::%s/const' % (path, f['name']), 'constant %s::%s is not reachable through the public path: %s' % (path, f['name'], dropped[iid]),
                             {'path': path, 'enumerator': f['name'], 'error': dropped[iid]}, confirmed=True)
                continue
            fn = item_fn.get(iid)
            root = inv.local.get(fn)
            if not root:
                ck.inconclusive.append('constant %s::%s: no root' % (path, f['name']))
                continue
            outs = ex.explore(root['key'], lambda: [])
            n += 1
            if len(outs) != 1 or outs[0].status != 'ret' or concrete(outs[0].result) is None:
                ck.inconclusive.append('constant %s::%s: %s' % (path, f['name'], outs[0].status + ' ' + outs[0].detail))
                continue
            got = concrete(outs[0].result)
            if got != f['value']:
                ck.violation('%s::%s/const' % (path, f['name']), 'constant %s::%s is %#x, wowm says %#x' % (path, f['name'], got, f['value']),
                             {'path': path, 'enumerator': f['name'], 'got': got, 'want': f['value'], 'rust': 'format!("{}", %s::%s as u64)' % (path, f['name'])}, confirmed=True)
    return n


def run(tier, only=None):
    ck = Check('C12', tier, 'model_checking')
    corpus = wowm.Corpus()
    total_q = 0
    fn_names = set()
    ntypes = 0
    nmethods = 0
    pending = []     # (key, what, payload, dep_key, rust_expr, expected)
    for kind in ('world', 'login'):
        prog, inv, res, dropped, item_fn = definers.build(kind, corpus)
        for k, why in dropped.items():
            if k.startswith('ty|') and 'private' not in why:
                ck.violation(k[3:] + '/type', 'flag/enum type not reachable through its public path: ' + why, {'path': k[3:], 'error': why})
        nconst = const_check(ck, kind, prog, inv, res, item_fn, dropped)
        ck.count('constants_checked', nconst)
        # group by rust type: one rust type may serve several expansions; each (type, wowm definition) pair is checked
        jobs = {}
        for v, d, path, ty in res:
            if d['k'] != 'flag' or ty is None:
                continue
            if only and only not in path:
                continue
            spec = flag_spec(corpus, d)
            key = (str(ty), json.dumps(spec['fields']), spec['zero_valid'], spec['width'])
            if key in jobs:
                jobs[key][3].append(path)
                continue
            jobs[key] = (spec, ty, path, [path])
        items = [(s, t, p) for s, t, p, _ in jobs.values()]
        ntypes += len(items)
        if not items:
            continue
        nproc = min(NCPU, len(items))
        chunks = [[] for _ in range(nproc)]
        for i, it in enumerate(sorted(items, key=lambda x: -len(x[0]['fields']))):
            chunks[i % nproc].append(it)
        with mp.Pool(nproc) as pool:
            results = pool.map(worker, [(prog.path, c) for c in chunks])
        dep_key = 'world' if kind == 'world' else 'login'
        for out, q, stats, fns in results:
            total_q += q
            fn_names.update(fns)
            for r in out:
                nmethods += len(r['funcs'])
                for i in r['inc']:
                    ck.inconclusive.append(i)
                if len(ck.cov['samples']) < 6:
                    ck.sample({'type': r['path'], 'wowm_file': r['spec']['file'], 'enumerators': len(r['spec']['fields']), 'methods_checked': len(r['funcs']), 'violations': len(r['viol']), 'secs': round(r['secs'], 2)})
                for vv in r['viol']:
                    key = '%s::%s/%s' % (r['path'], vv['method'], vv['label'].split(' ')[0].rstrip(':'))
                    pending.append((key, vv, r['path'], dep_key))
    # native replay of every counterexample (one program per crate set)
    by_dep = {}
    for key, vv, path, dep_key in pending:
        by_dep.setdefault(dep_key, []).append((key, vv, path))
    for dep_key, lst in by_dep.items():
        # findings already recorded (and natively confirmed when recorded) are not rebuilt natively on every run
        cases = [(key, vv['rust']) for key, vv, path in lst if vv.get('rust') and ck.known.match('C12', key) is None]
        outs = {}
        if cases:
            try:
                outs = native.eval_cases(dep_key, cases, prelude=PRELUDE)
            except Exception as e:
                ck.inconclusive.append('native replay failed to build: %s' % str(e)[-300:])
        for key, vv, path in lst:
            payload = dict(vv, type=path)
            if not vv.get('rust'):
                ck.violation(key, vv['what'], payload, confirmed=True)
                continue
            o = outs.get(key)
            payload['native_dev'], payload['native_release'] = (o or (None, None))
            confirmed = confirm(vv, o)
            ck.violation(key, '%s inputs=%s native=%r' % (vv['what'], vv['inputs'], o), payload, confirmed=confirmed)
    if not only or 'b' == only or '_' in (only or ''):
        try:
            from . import c12b
            nt, nm, nqb = c12b.check(ck, corpus, None if only == 'b' else only)
            ntypes += nt
            nmethods += nm
            total_q += nqb
            ck.assume('synthesised message-local flag structs (<Container>_<Flag>): clear_x / set_x / new_x / empty / is_empty are executed with the raw value symbolic and every Option member None; set_x arguments are fresh symbolic values where their type is plain data')
        except Exception:
            import traceback
            ck.inconclusive.append('synthesised flag structs: %s' % traceback.format_exc()[-400:])
    ck.assume('std models reached: ' + ', '.join(sorted(n for n in fn_names if n.startswith('std::') or n.startswith('core::'))[:40]))
    ck.assume('wowm reading: vf/wowm.py (independent parser); enumerator <-> accessor matched by case/underscore-insensitive name')
    ck.assume('conversions: same width = bit for bit; any other width must preserve the numeric value or be rejected (Err carries the argument)')
    return ck.finish({'states': max(ntypes, 1), 'transitions': max(nmethods, 1), 'traces_validated_against_impl': len(pending),
                      'flag_types': ntypes, 'methods_checked': nmethods, 'queries': total_q, 'functions_encoded': sorted(fn_names)[:60],
                      'functions_encoded_count': len(fn_names),
                      'bounds': 'none: every raw value of the flag width and every source integer of each conversion is a free bit-vector',
                      'rule': 'one z3 query per (flag type, method, output): is there a raw value for which the MIR result differs from the set-algebra spec'},
                     fail_on_inconclusive=True)


def confirm(vv, o):
    """does the native run reproduce the disagreement? o = (dev, release) outputs"""
    if o is None or o[0] is None:
        return False
    if vv['label'] == 'panic':
        return 'PANIC' in (o[0] or '') or 'PANIC' in (o[1] or '')
    lab = vv['label'].split(':')[0]
    if lab in ('accepts-negative', 'accepts-too-large'):
        return o[0].startswith('Ok(') or o[1].startswith('Ok(')
    if lab == 'rejects-representable':
        return o[0].startswith('Err(') or o[1].startswith('Err(')
    want = vv.get('want')
    # the native output is the observed value; a violation reproduces if it differs from the expected value
    try:
        toks = o[0].replace('Ok(', '').replace('Err(', '').replace(')', '').split()
        if want in ('True', 'False'):
            return toks[0].lower() != want.lower()
        wi = int(want)
        return any(int(t) != wi for t in toks if t.lstrip('-').isdigit()) or not toks
    except Exception:
        return True


def replay(path):
    j = json.load(open(path))
    if not j.get('rust'):
        print(j.get('what'))
        print('VIOLATION property=C12 replay=%s' % path)
        return 1
    dep = 'login' if 'wow_login_messages' in j['rust'] else 'world'
    o = native.eval_cases(dep, [('x', j['rust'])], prelude=PRELUDE)['x']
    print('native:', o, 'expected:', j.get('want'))
    if confirm(j, o):
        print('VIOLATION property=C12 replay=%s' % path)
        return 1
    return 0
