"""C18 - documentation shows each object's definition and examples faithfully.
The real generator is run on a scratch copy of the current tree. Every wowm text it embeds - in the documentation pages
(wowm_language/src/docs/*.md) and in the doc comments of the generated Rust files - is parsed back with the independent
wowm reader and compared with the source object at the file:line the text cites: (a) as a syntax tree (name, kind,
opcode, base type, enumerators and values, member order and types, conditions), (b) for containers of a supported
version view, by z3: the encoder built from the documented text and the encoder built from the source produce the same
bytes and validity predicate for all field values per covered shape. The body tables must list the same members in the
same order with the wire sizes of fixed-size members; each example's annotated byte groups must concatenate to the test
vector of the source (with header) and name the fields in definition order."""
import glob
import json
import os
import re
import z3
from ..common import Check, log, seed
from .. import wowm, encode, gen
from .c10 import compare_container, Mismatch

PROP = 'C18'
SRC_RE = re.compile(r'`wow_message_parser/wowm/([^`:]+):(\d+)`')


def norm_val(v):
    if v is None or v == 'self.size':
        return v
    try:
        return wowm.parse_value(v)
    except Exception:
        return v


def norm_members(ms):
    out = []
    for m in ms:
        if m['k'] == 'decl':
            out.append(('decl', m['name'], m['ty'], m['up'], m['arr'], norm_val(m['val'])))
        elif m['k'] == 'if':
            out.append(('if', tuple((tuple(c), tuple(norm_members(b))) for c, b in m['branches']), tuple(norm_members(m['els'])) if m['els'] is not None else None))
        elif m['k'] == 'optional':
            out.append(('optional', m['name'], tuple(norm_members(m['members']))))
        else:
            out.append((m['k'],))
    return out


def norm_obj(o):
    if o['k'] in ('enum', 'flag'):
        return (o['k'], o['name'], o['ty'], tuple((f['name'], f['value']) for f in o['fields']))
    return (o['k'], o['name'], o.get('opcode'), tuple(norm_members(o['members'])))


def first_diff(a, b, path=''):
    if type(a) != type(b) or not isinstance(a, (tuple, list)):
        return '%s: %r vs %r' % (path, a, b) if a != b else None
    for i, (x, y) in enumerate(zip(a, b)):
        d = first_diff(x, y, '%s/%d' % (path, i))
        if d:
            return d
    if len(a) != len(b):
        return '%s: %d vs %d entries' % (path, len(a), len(b))
    return None


def parse_text(text, where):
    cmds, objs = wowm.Parser(wowm.lex(text, where), where).file()
    return objs


def flat_names(ms, out=None):
    out = out if out is not None else []
    for m in ms:
        if m['k'] == 'decl':
            out.append(m)
        elif m['k'] == 'if':
            for _, b in m['branches']:
                flat_names(b, out)
            if m['els']:
                flat_names(m['els'], out)
        elif m['k'] == 'optional':
            flat_names(m['members'], out)
    return out


class Sources:
    def __init__(self, corpus):
        self.c = corpus
        self.by_file = {}
        for o in corpus.objects:
            if o['k'] != 'test':
                self.by_file.setdefault(o['file'], []).append(o)

    def at(self, rel, line, name):
        objs = self.by_file.get(rel, [])
        best = None
        for o in objs:
            if o['name'] != name:
                continue
            dl = o['line'] - line
            # the citation is the line of the keyword or of the doc comment block above it
            if dl >= 0 and dl <= len(o.get('docs', [])) + 1 and (best is None or dl < best[0]):
                best = (dl, o)
        return best[1] if best else None

    def versions(self, o):
        lv = self.c.tag(o, 'login_versions')
        if lv is not None:
            return 'login', set(lv.split())
        vs = ((self.c.tag(o, 'versions') or '') + ' ' + (self.c.tag(o, 'paste_versions') or '')).split()
        return 'world', set(vs)


def fixed_size(corpus, view, m):
    """wire size of a member when it does not depend on values or choices, else None"""
    if m['arr'] is not None and not re.fullmatch(r'\d+', m['arr']):
        return None
    ch = encode.Chooser()
    enc = encode.Encoder(corpus, view, encode.Bounds('quick'), ch)
    try:
        enc._sizes = [[]]
        enc.decl(dict(m, val=None if m['val'] == 'self.size' else m['val']), 'x', {}, {'name': 'x', 'members': []}, False, True)
    except Exception:
        return None
    if ch.seen:
        return None
    return len(enc.e.bytes)


def view_for(corpus, kind, vers):
    """a supported version view covered by this version set, or None"""
    if kind == 'login':
        for n in wowm.LOGIN_ALL:
            if '*' in vers or str(n) in vers:
                return corpus.login_view(n)
        return None
    pv = wowm.parse_world_versions(' '.join(vers))
    for e in ('vanilla', 'tbc', 'wrath'):
        if wowm.world_covers(pv, wowm.WORLD_MAIN[e]):
            return corpus.world_view(e)
    return None


def header_versions(h):
    kind = 'login' if 'Protocol Version' in h else 'world'
    vs = set()
    for part in h.split(','):
        part = part.strip()
        m = re.match(r'(?:Client|Protocol) Version (\S+)$', part)
        if m:
            vs.add(m.group(1))
    return kind, vs


def example_groups(block):
    """[(bytes, comment)] per line of an example; bytes are only what precedes the // comment"""
    out = []
    for line in block.splitlines():
        if not line.strip():
            continue
        code, _, comment = line.partition('//')
        bs = [int(x) for x in re.findall(r'\b\d+\b', code)]
        out.append((bs, comment.strip()))
    return out


def header_len(kind, objk, view, nbody):
    if kind == 'login':
        return 1
    if objk == 'cmsg':
        return 6
    if objk == 'smsg':
        if view and view.get('exp') == 'wrath' and nbody + 2 > 0x7FFF:
            return 5
        return 4
    return None


def run(tier, only=None):
    ck = Check(PROP, tier, 'translation_validation')
    sd = seed()
    scratch, out, rc = gen.regenerate()
    try:
        if rc != 0:
            ck.violation('generator/exit', 'the generator exits with status %d on the unmodified tree: %s' % (rc, out[-300:]), {'rc': rc, 'output': out[-2000:]})
            return ck.finish({'programs': 1, 'disagreements_checked': 0})
        corpus = wowm.Corpus(os.path.join(scratch, 'wow_message_parser', 'wowm'))
        src = Sources(corpus)
        bounds = encode.Bounds('quick')
        bounds.max_shapes = 4 if tier == 'quick' else 24
        stats = {'pages': 0, 'page_sections': 0, 'rust_comments': 0, 'layout_shapes': 0, 'tables': 0, 'examples': 0, 'documented_objects': set()}
        tests_by_subject = {}
        for o in corpus.objects:
            if o['k'] == 'test':
                tests_by_subject.setdefault(o['name'], []).append(o)

        def check_text(where, text, rel, line, kind_hint, versions_hint, key):
            """parse one embedded wowm text and compare it with the source object it cites"""
            try:
                objs = parse_text(text, where)
            except wowm.WowmError as e:
                ck.violation(key + '/parse', '%s: the embedded wowm text does not parse: %s' % (where, str(e)[:200]), {'text': text[:1500]})
                return None, None
            if len(objs) != 1:
                ck.violation(key + '/parse', '%s: the embedded wowm text holds %d objects' % (where, len(objs)), {'text': text[:1500]})
                return None, None
            d = objs[0]
            s = src.at(rel, line, d['name'])
            if s is None:
                ck.violation(key + '/source', '%s: no object named %s at %s:%d of the sources' % (where, d['name'], rel, line), {})
                return None, None
            stats['documented_objects'].add((rel, s['line'], s['name']))
            diff = first_diff(norm_obj(s), norm_obj(d))
            if diff:
                ck.violation(key + '/definition', '%s: documented definition of %s differs from %s:%d at %s' % (where, d['name'], rel, s['line'], diff[:300]), {'documented': text[:1500]})
            return s, d

        def layout(where, s, d, key, view):
            if view is None or s['k'] in ('enum', 'flag') or view['containers'].get(s['name']) is not s:
                return
            dview = dict(view)
            dview['containers'] = dict(view['containers'])
            dview['containers'][s['name']] = d
            try:
                n, err = compare_container(corpus, view, s, d, dview, bounds, sd)
                stats['layout_shapes'] += n
                if err:
                    ck.violation(key + '/layout', '%s: %s' % (where, err), {})
            except encode.NotSupported:
                pass

        # ---- documentation pages
        pages = sorted(glob.glob(os.path.join(scratch, 'wowm_language', 'src', 'docs', '*.md')))
        summary = open(os.path.join(scratch, 'wowm_language', 'src', 'SUMMARY.md')).read()
        listed = set(re.findall(r'\(docs/([^)]+\.md)\)', summary))
        stats['pages_not_in_summary'] = len([p for p in pages if os.path.basename(p) not in listed])
        for missing in sorted(listed - set(os.path.basename(p) for p in pages))[:10]:
            ck.violation('summary/' + missing, 'SUMMARY.md links docs/%s which does not exist' % missing, {})
        for pg in pages:
            pname = os.path.basename(pg)
            if pname not in listed:
                continue      # left over from an earlier generator run; not part of the book
            if only and only.lower() not in pname:
                continue
            text = open(pg).read()
            stats['pages'] += 1
            secs = re.split(r'(?m)^## ', text)
            seen_sections = {}
            for sec in secs[1:]:
                head, _, body = sec.partition('\n')
                kind, hv = header_versions(head)
                m = re.search(r'### Wowm Representation\s*\n(.*?)```rust,ignore\n(.*?)```', body, re.S)
                if not m:
                    continue
                cite = SRC_RE.search(m.group(1))
                if not cite:
                    ck.violation('page/%s/cite' % pname, '%s: section "%s" cites no source position' % (pname, head[:60]), {})
                    continue
                rel, line = cite.group(1), int(cite.group(2))
                key = 'page/%s/%s:%d' % (pname, rel, line)
                stats['page_sections'] += 1
                s, d = check_text('%s section "%s"' % (pname, head[:50]), m.group(2), rel, line, kind, hv, key)
                if s is None:
                    continue
                skind, svers = src.versions(s)
                if skind != kind or not hv <= svers:
                    ck.violation(key + '/versions', '%s: section header lists versions %s, the source object has %s' % (pname, sorted(hv), sorted(svers)), {})
                seen_sections.setdefault((rel, s['line']), set()).update(hv)
                view = view_for(corpus, kind, hv)
                layout(pname, s, d, key, view)
                # body table: member rows in definition order, sizes of fixed-size members
                if s['k'] not in ('enum', 'flag'):
                    bm = re.search(r'### Body\s*\n(.*?)(?=\n### |\n## |\Z)', body, re.S)
                    rows = []
                    if bm:
                        for ln in bm.group(1).splitlines():
                            cells = [c.strip() for c in ln.strip().strip('|').split('|')] if ln.startswith('|') else []
                            if len(cells) >= 4 and cells[0] not in ('Offset', '') and not set(cells[0]) <= set('- '):
                                rows.append(cells)
                            elif len(cells) >= 4 and cells[0] == '-':
                                rows.append(cells)
                    decls = flat_names(s['members'])
                    names_doc = [r[3] for r in rows]
                    names_src = [m_['name'] for m_ in decls]
                    nested = any(m_['k'] == 'if' and any(x['k'] == 'if' for _, b in m_['branches'] for x in b) or (m_['k'] == 'if' and m_['els'] and any(x['k'] == 'if' for x in m_['els'])) for m_ in s['members'])
                    if bm is None and nested:
                        stats['no_table_nested_if'] = stats.get('no_table_nested_if', 0) + 1
                    elif bm is not None and ('has not been implemented' in bm.group(1) or 'no fields in the body' in bm.group(1)):
                        if names_src and 'no fields in the body' in bm.group(1):
                            ck.violation(key + '/table', '%s: the page says the body has no fields, the definition has %d' % (pname, len(names_src)), {})
                    elif names_doc != names_src:
                        d0 = next((i for i, (a, b) in enumerate(zip(names_doc, names_src)) if a != b), min(len(names_doc), len(names_src)))
                        ck.violation(key + '/table', '%s: body table lists %d members, the definition has %d; first difference at row %d (%s vs %s)' % (
                            pname, len(names_doc), len(names_src), d0, names_doc[d0:d0 + 1], names_src[d0:d0 + 1]), {})
                    elif view is not None:
                        stats['tables'] += 1
                        for r, m_ in zip(rows, decls):
                            sz = r[1].split('/')[0].strip()
                            want = fixed_size(corpus, view, m_)
                            if want is not None and re.fullmatch(r'\d+', sz) and int(sz) != want:
                                ck.violation(key + '/table-size/' + m_['name'], '%s: body table gives size %s for member %s, its wire size is %d' % (pname, sz, m_['name'], want), {})
                            if want is not None and sz in ('-', '?') and m_['arr'] is None and want > 0 and wowm.int_type_info(encode.ALIASES.get(m_['ty'], m_['ty'])):
                                ck.violation(key + '/table-size/' + m_['name'], '%s: body table gives no size for the %d-byte member %s' % (pname, want, m_['name']), {})
                    # examples
                    exs = re.findall(r'#### Example \d+\s*\n(.*?)```c\n(.*?)```', body, re.S)
                    tests = [t for t in tests_by_subject.get(s['name'], []) if src.versions(t)[1] & svers or '*' in src.versions(t)[1] or '*' in svers]
                    tests = [t for t in tests if view is None or t in view['tests'] or True]
                    if exs and len(exs) != len(tests) and len(tests) > 0:
                        pass   # version filtering of examples is the generator's; compared by content below
                    tb = [bytes(t['bytes']) for t in tests_by_subject.get(s['name'], [])]
                    compressed = corpus.tag(s, 'compressed') == 'true' or any(('compressed', 'true') in [tuple(t) for t in m_['tags']] for m_ in decls)
                    for i, (_, blk) in enumerate(exs):
                        groups = example_groups(blk)
                        got = bytes(b & 0xFF for g, _ in groups for b in g)
                        if compressed:
                            # by design the page shows the decompressed payload: the annotated bytes must be a prefix of a
                            # test vector followed by the zlib-decompressed rest of that vector
                            import zlib
                            stats['examples_compressed'] = stats.get('examples_compressed', 0) + 1
                            ok = False
                            for t in tb:
                                k = len(os.path.commonprefix([t, got]))
                                for cut in range(k, max(k - 8, -1), -1):
                                    rest = t[cut:]
                                    try:
                                        dec = zlib.decompress(rest) if rest else b''
                                    except zlib.error:
                                        continue
                                    if got[cut:] == dec:
                                        ok = True
                                        break
                                if ok:
                                    break
                            if not ok:
                                ck.violation(key + '/example%d/bytes' % (i + 1), '%s example %d (compressed): the annotated byte groups (%d bytes) are not "wire prefix + decompressed rest" of any test vector of %s' % (pname, i + 1, len(got), s['name']),
                                             {'annotated': list(got[:200])})
                            continue
                        stats['examples'] += 1
                        if got not in tb:
                            near = max(tb, key=lambda t: len(os.path.commonprefix([t, got]))) if tb else b''
                            k = len(os.path.commonprefix([near, got]))
                            ck.violation(key + '/example%d/bytes' % (i + 1), '%s example %d: the annotated byte groups give %d bytes which are no test vector of %s (closest vector has %d bytes, first difference at offset %d%s)' % (
                                pname, i + 1, len(got), s['name'], len(near), k, ': a byte group is swallowed by the preceding comment' if any(re.search(r'\d+, \d+', c) for _, c in groups) else ''),
                                {'annotated': list(got), 'closest': list(near)})
                            continue
                        # field order: names in comments follow the definition order
                        order = {m_['name']: j for j, m_ in enumerate(decls)}
                        last = -1
                        for g, c in groups:
                            mm = re.match(r'([A-Za-z_0-9]+)(?:\[\d+\])?:', c)
                            if mm and mm.group(1) in order:
                                j = order[mm.group(1)]
                                if j < last:
                                    ck.violation(key + '/example%d/order' % (i + 1), '%s example %d: field %s is annotated after a later field of the definition' % (pname, i + 1, mm.group(1)), {})
                                    break
                                last = j
            for (rel, line), hv in seen_sections.items():
                pass
        # ---- Rust doc comments
        roots = [('wow_world_base/src/inner', 'world'), ('wow_world_messages/src/world', 'world'), ('wow_login_messages/src/logon', 'login')]
        for root, kind in roots:
            for f in sorted(glob.glob(os.path.join(scratch, root, '**', '*.rs'), recursive=True)):
                relf = os.path.relpath(f, scratch)
                if only and only.lower() not in os.path.basename(f).lower():
                    continue
                t = open(f).read()
                for m in re.finditer(r'((?:^[ \t]*///[^\n]*\n)+)', t, re.M):
                    blk = m.group(1)
                    cite = SRC_RE.search(blk)
                    cm = re.search(r'```text\n(.*?)^[ \t]*/// ```', blk, re.S | re.M)
                    if not cite or not cm:
                        continue
                    text = '\n'.join(re.sub(r'^[ \t]*/// ?', '', ln) for ln in cm.group(1).splitlines())
                    rel, line = cite.group(1), int(cite.group(2))
                    stats['rust_comments'] += 1
                    key = 'rust/%s/%s:%d' % (relf, rel, line)
                    s, d = check_text(relf, text, rel, line, kind, None, key)
                    if s is None:
                        continue
                    # the file must belong to a version the source object covers
                    parts = relf.split('/')
                    skind, svers = src.versions(s)
                    exp = next((p for p in parts if p in ('vanilla', 'tbc', 'wrath')), None)
                    lv = next((p for p in parts if p.startswith('version_')), None)
                    if exp and not wowm.world_covers(wowm.parse_world_versions(' '.join(svers)), wowm.WORLD_MAIN[exp]):
                        ck.violation(key + '/versions', '%s documents %s:%d whose versions %s do not cover %s' % (relf, rel, s['line'], sorted(svers), exp), {})
                    if lv and not ('*' in svers or lv.split('_')[1] in svers):
                        ck.violation(key + '/versions', '%s documents %s:%d whose login versions %s do not include %s' % (relf, rel, s['line'], sorted(svers), lv), {})
                    if tier != 'quick':
                        v = corpus.world_view(exp) if exp else (corpus.login_view(int(lv.split('_')[1])) if lv else None)
                        layout(relf, s, d, key, v)
        # every non-test source object is documented by a page
        undocumented = []
        for o in corpus.objects:
            if o['k'] == 'test' or corpus.is_test_object(o) or only:
                continue
            if (o['file'], o['line'], o['name']) not in stats['documented_objects']:
                undocumented.append('%s (%s:%d)' % (o['name'], o['file'], o['line']))
        for u in undocumented[:20]:
            ck.violation('undocumented/' + u, 'source object %s has neither a documentation page section nor a Rust doc comment showing it' % u, {})
        ndoc = len(stats.pop('documented_objects'))
        ck.sample(dict(stats, documented_objects=ndoc))
        ck.assume('(a) syntax-tree equality and the table/example comparisons are deterministic data comparisons; the solver claim is (b): per container of a supported view and covered shape, bytes and validity predicate of the documented text == those of the source (z3), shapes capped at %d' % bounds.max_shapes)
        ck.assume('pages not linked from SUMMARY.md (left-overs of earlier generator versions) are ignored; containers with nested if statements have no body table by design (doc_printer) and examples of compressed messages show the decompressed payload and are compared as wire prefix + zlib-decompressed rest; comments, descriptions, links and the header tables of the pages are outside the comparison; table sizes are compared for members whose wire size does not depend on values')
        ck.assume('in the quick tier the z3 layout comparison runs on the documentation pages only (the Rust doc comments embed the same printer output and are compared as syntax trees); thorough runs it on both')
        return ck.finish(dict(stats, programs=max(ndoc, 1), disagreements_checked=stats['page_sections'] + stats['rust_comments'], documented_objects=ndoc,
                              rule='embedded wowm text == source object at the cited file:line (tree equality + z3 layout equivalence); body table rows == members; example byte groups == a test vector'), fail_on_inconclusive=False)
    finally:
        gen.cleanup()


def replay(path):
    print(open(path).read()[:2000])
    print('VIOLATION property=%s replay=%s' % (PROP, path))
    return 1
