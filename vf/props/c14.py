"""C14 - login protocol-version views of a message are lossless and codec-equivalent.
For each collective message family and each older protocol version N, MIRSYM executes the real hand-written
conversion layer through the public protocol-parameterised API on the canonical encodings of version N's message
(all field values symbolic): (1) the value read through the protocol API and lowered with to_version_N equals the value
version N's own codec decodes (=> to_version_N(from_version_N(v)) == v); (2) reading through the protocol API and
writing back through it reproduces the version-N bytes exactly."""
import json
import multiprocessing as mp
import os
import time
import traceback
import z3
from ..common import Check, log, NCPU, seed
from .. import wowm, messages, encode, mirdump
from ..mirsym import (Prog, Exec, Agg, Ref, Cell, EnumV, SymEnum, SliceRef, VecV, Opaque, Unsupported, BV)
from ..inventory import Inventory
from .c06 import differ

PROP = 'C14'
VERS = {2: 'Two', 3: 'Three', 5: 'Five', 6: 'Six', 7: 'Seven', 8: 'Eight'}
PRELUDE = 'use wow_login_messages::CollectiveMessage;\npub fn __templates(a: &mut Vec<u8>, b: &mut &[u8]) {}\n'


def families(corpus):
    """collective (latest = version 8) login messages: [(name, side, rust path)]"""
    out = []
    v8 = corpus.login_view(8)
    for name, c in sorted(v8['containers'].items()):
        if c['k'] not in ('clogin', 'slogin') or corpus.is_test_object(c):
            continue
        lv = corpus.tag(c, 'login_versions').split()
        mod = 'all' if '*' in lv else 'version_8'
        out.append((name, 'client' if c['k'] == 'clogin' else 'server', 'wow_login_messages::%s::%s' % (mod, name)))
    return out


def items(corpus):
    it = {}
    fam = families(corpus)
    eoe = 'wow_login_messages::errors::ExpectedOpcodeError'
    for i, (name, side, path) in enumerate(fam):
        for n, vn in VERS.items():
            if n == 8:
                continue
            pv = 'wow_login_messages::all::ProtocolVersion::%s' % vn
            vt = '<%s as CollectiveMessage>::Version%d' % (path, n)
            it['p|%d|%d' % (i, n)] = ('pub fn c14_p_%d_%d(r: &mut &[u8], v: &mut Vec<u8>) -> Result<Result<(), std::io::Error>, %s> { let m = wow_login_messages::helper::expect_%s_message_protocol::<%s, _>(r, %s)?; '
                                      'Ok(m.write_protocol(v, %s)) }') % (i, n, eoe, side, path, pv, pv)
            it['l|%d|%d' % (i, n)] = ('pub fn c14_l_%d_%d(r: &mut &[u8]) -> Result<%s, %s> { Ok(wow_login_messages::helper::expect_%s_message_protocol::<%s, _>(r, %s)?.to_version_%d()) }') % (i, n, vt, eoe, side, path, pv, n)
            it['d|%d|%d' % (i, n)] = ('pub fn c14_d_%d_%d(r: &mut &[u8]) -> Result<%s, %s> { wow_login_messages::helper::expect_%s_message::<%s, _>(r) }') % (i, n, vt, eoe, side, vt)
    return it, fam


def explore(ex, key, mk, cons):
    ex.set_assumptions(cons)
    res = []
    for P in ex.explore_guided(key, mk):
        if P.status == 'unsupported':
            raise Unsupported(P.detail)
        if P.status == 'infeasible':
            continue
        res.append(P)
    return res


def worker(job):
    dump, tier, sd, pairs = job
    corpus = wowm.Corpus()
    fam = families(corpus)
    prog = Prog(dump)
    inv = Inventory(prog)
    ex = Exec(prog)
    ex.max_paths = 60
    bounds = encode.Bounds(tier)
    bounds.max_shapes = 8 if tier == 'quick' else 60
    bounds.flag_declared_only = True
    out = []
    for (i, n) in pairs:
        name, side, path = fam[i]
        r = {'family': name, 'version': n, 'findings': [], 'inc': [], 'shapes': 0}
        try:
            view = corpus.login_view(n)
            cont = view['containers'].get(name)
            if cont is None:
                r['note'] = '%s has no wowm definition for protocol version %d (the library maps it to a neighbouring version\'s type); not checked' % (name, n)
                out.append(r)
                continue
            roots = {k: inv.local.get('c14_%s_%d_%d' % (k, i, n)) for k in 'pld'}
            if not all(roots.values()):
                raise Unsupported('entry points missing: %s' % [k for k, v in roots.items() if not v])
            for enc, ch in encode.shapes(corpus, view, cont, bounds, sd):
                cons = list(enc.cons)
                if z3.Solver().check(*cons) != z3.sat:
                    continue
                r['shapes'] += 1
                data = [BV(cont['opcode'] & 0xFF, 8)] + list(enc.bytes)
                nb = len(data)
                label = ';'.join('%s=%d' % (l.split('.', 1)[-1], c) for l, nn, c in ch.seen)[:100]
                # (2) protocol read + protocol write reproduces the bytes
                holder = {}

                def mkp():
                    v = VecV([])
                    holder['v'] = v
                    return [Ref(Cell(SliceRef(list(data), 0, nb))), Ref(Cell(v))]
                paths = []
                ex.set_assumptions(cons)
                for P in ex.explore_guided(roots['p']['key'], mkp, on_path=lambda P: P.env.__setitem__('out', holder['v'])):
                    if P.status == 'unsupported':
                        raise Unsupported(P.detail)
                    if P.status != 'infeasible':
                        paths.append(P)
                for P in paths:
                    sol = z3.Solver()
                    sol.add(*cons)
                    sol.add(*P.pc)
                    bad = None
                    if P.status != 'ret':
                        bad = 'protocol read/write ends in %s %s' % (P.status, P.detail[:80])
                    else:
                        res = P.result
                        alts = [(z3.BoolVal(True), res.d, res.f)] if isinstance(res, EnumV) else res.alts
                        conds = []
                        for c0, d0, f0 in alts:
                            if d0 != 0:
                                conds.append(c0)     # canonical version-N bytes rejected by the protocol API
                            else:
                                inner = f0[0]
                                ia = [(z3.BoolVal(True), inner.d, inner.f)] if isinstance(inner, EnumV) else inner.alts
                                for c1, d1, f1 in ia:
                                    if d1 != 0:
                                        conds.append(z3.And(c0, c1))
                        outb = P.env['out'].lst
                        if len(outb) != nb:
                            conds.append(z3.BoolVal(True))
                        else:
                            conds += [o != e for o, e in zip(outb, data) if not o.eq(e)]
                        if conds:
                            sol.add(z3.Or(*conds))
                        else:
                            continue
                    if sol.check() == z3.sat:
                        m = sol.model()
                        bs = [m.eval(b, model_completion=True).as_long() for b in data]
                        r['findings'].append({'kind': 'bytes', 'what': bad or 'read_protocol + write_protocol (version %d) does not reproduce the version-%d bytes %s [shape %s]' % (n, n, ' '.join('%02x' % b for b in bs[:48]), label), 'bytes': bs})
                        break
                # (1) lowered value == value decoded by version N's own codec
                mk = lambda: [Ref(Cell(SliceRef(list(data), 0, nb)))]
                lp = explore(ex, roots['l']['key'], mk, cons)
                dp = explore(ex, roots['d']['key'], mk, cons)
                done = False
                for A in lp:
                    for B in dp:
                        sol = z3.Solver()
                        sol.add(*cons)
                        sol.add(*A.pc)
                        sol.add(*B.pc)
                        if A.status != B.status:
                            if sol.check() == z3.sat:
                                r['findings'].append({'kind': 'value', 'what': 'protocol API path ends in %s, version codec in %s [shape %s]' % (A.status, B.status, label)})
                                done = True
                            continue
                        if A.status != 'ret':
                            continue
                        d = differ(A.result, B.result)
                        if not d:
                            continue
                        sol.add(z3.Or(*d))
                        if sol.check() == z3.sat:
                            m = sol.model()
                            bs = [m.eval(b, model_completion=True).as_long() for b in data]
                            r['findings'].append({'kind': 'value', 'what': 'to_version_%d(read_protocol(bytes)) differs from the value version %d\'s codec decodes for %s [shape %s]' % (n, n, ' '.join('%02x' % b for b in bs[:48]), label), 'bytes': bs})
                            done = True
                        if done:
                            break
                    if done:
                        break
                if r['findings']:
                    break
        except encode.NotSupported as e:
            r['inc'].append('%s v%d: unsupported by the reader: %s' % (name, n, e))
        except Unsupported as e:
            r['inc'].append('%s v%d: %s' % (name, n, str(e)[:300]))
        except Exception:
            r['inc'].append('%s v%d: checker exception %s' % (name, n, traceback.format_exc()[-600:]))
        out.append(r)
    return out, sorted(ex.fns_reached)


def run(tier, only=None):
    ck = Check(PROP, tier, 'model_checking')
    corpus = wowm.Corpus()
    sd = seed()
    it, fam = items(corpus)
    out, dropped = mirdump.dump_items('collective_login', ['wow_login_messages'], it, [], extra_rs=PRELUDE)
    for k, why in dropped.items():
        ck.inconclusive.append('entry %s does not compile: %s' % (k, why[:200]))
    pairs = [(i, n) for i in range(len(fam)) for n in (2, 3, 5, 6, 7) if not only or only in fam[i][0]]
    nproc = min(NCPU, max(1, len(pairs)))
    chunks = [c for c in (pairs[j::nproc] for j in range(nproc)) if c]
    with mp.Pool(nproc) as pool:
        results = pool.map(worker, [(out, tier, sd, c) for c in chunks], chunksize=1)
    nsh = npairs = 0
    fns = set()
    for res, f in results:
        fns.update(f)
        for r in res:
            npairs += 1
            nsh += r['shapes']
            ck.inconclusive.extend(r['inc'])
            if r.get('note'):
                ck.assume(r['note'])
            if r['shapes'] and len(ck.cov['samples']) < 8:
                ck.sample({'family': r['family'], 'protocol_version': r['version'], 'shapes': r['shapes']})
            for fd in r['findings']:
                ck.violation('%s/v%d/%s' % (r['family'], r['version'], fd['kind']), fd['what'], dict(fd, family=r['family'], version=r['version']), confirmed=True)
    ck.assume('inputs: canonical encodings of version N\'s own wowm definition (vf/encode.py), shapes as in C01 with a smaller cap; version N\'s own codec is related to the wowm by C01')
    ck.assume('flag values are subsets of the enumerators version N declares (bits no version-N enumerator names are not part of a canonical version-N message; the conversion layer rebuilds flags from their named members)')
    ck.assume('protocol version 8 is the collective type itself (read_protocol/write_protocol forward to the type\'s own codec)')
    return ck.finish({'states': max(nsh, 1), 'transitions': max(npairs, 1), 'traces_validated_against_impl': 0, 'families': len(fam), 'family_version_pairs': npairs, 'shapes': nsh,
                      'functions_encoded_count': len(fns), 'functions_encoded': sorted(f for f in fns if 'collective' in f or 'protocol' in f)[:60],
                      'bounds': 'shapes as C01 (counts/lengths <= 2), all field values symbolic',
                      'rule': 'per (family, version, shape): bytes(write_protocol(read_protocol(B))) == B and to_version_N(read_protocol(B)) == read_N(B), decided by z3 on all differing scalars'},
                     fail_on_inconclusive=False)


def replay(path):
    print(open(path).read()[:3000])
    print('VIOLATION property=%s replay=%s' % (PROP, path))
    return 1
