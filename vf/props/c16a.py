"""C16 part A: the generator's version relations against their set semantics, decided by z3 on the MIR."""
import os
import z3
from .. import mirdump
from ..mirsym import Prog, Exec, Ref, Cell, EnumV, SymEnum, Unsupported, BV

FNS = ['WorldVersion::overlaps', 'WorldVersion::covers', 'LoginVersion::overlaps', 'LoginVersion::fullfills']


def sym_enum(prog, ty, name):
    """fully symbolic value of a plain enum (variant and every field free); returns (value, disc term, {variant: fields})"""
    a = prog.adt(ty)
    nv = len(a['variants'])
    d = z3.BitVec(name + '.d', 8)
    alts = []
    fields = {}
    for vi, v in enumerate(a['variants']):
        fs = []
        for fi, f in enumerate(v['fields']):
            ii = prog.int_info(f['ty'])
            if not ii or ii[0] == 'bool':
                raise Unsupported('field type of %s' % a['name'])
            fs.append(z3.BitVec('%s.%s.%d' % (name, v['name'], fi), ii[0]))
        fields[v['name']] = fs
        alts.append((d == vi, vi, fs))
    return SymEnum(alts), d, fields, [v['name'] for v in a['variants']], z3.ULT(d, nv)


def w_member(names, d, f, x):
    xm, xi, xp, xb = x
    out = []
    for vi, n in enumerate(names):
        fs = f[n]
        if n == 'All':
            c = z3.BoolVal(True)
        elif n == 'Major':
            c = xm == fs[0]
        elif n == 'Minor':
            c = z3.And(xm == fs[0], xi == fs[1])
        elif n == 'Patch':
            c = z3.And(xm == fs[0], xi == fs[1], xp == fs[2])
        elif n == 'Exact':
            c = z3.And(xm == fs[0], xi == fs[1], xp == fs[2], xb == fs[3])
        else:
            raise Unsupported('WorldVersion variant %s' % n)
        out.append(z3.And(d == vi, c))
    return z3.Or(*out)


def l_member(names, d, f, x):
    out = []
    for vi, n in enumerate(names):
        if n == 'All':
            c = z3.BoolVal(True)
        elif n == 'Specific':
            c = x == f[n][0]
        else:
            raise Unsupported('LoginVersion variant %s' % n)
        out.append(z3.And(d == vi, c))
    return z3.Or(*out)


def result_formula(paths):
    """boolean result of the function as one formula over the inputs"""
    alts = []
    for P in paths:
        if P.status == 'infeasible':
            continue
        if P.status != 'ret':
            raise Unsupported('path ends in %s %s' % (P.status, P.detail[:100]))
        r = P.result
        r = r if z3.is_bool(r) else (r != 0)
        alts.append(z3.And(*(list(P.pc) + [r])))
    return z3.Or(*alts) if alts else z3.BoolVal(False)


def check(ck, scratch):
    out = mirdump.dump_bin('generator_versions', os.path.join(scratch, 'wow_message_parser'), 'wow_message_parser', FNS)
    prog = Prog(out)
    keys = {}
    for key in prog.fn_keys():
        f = prog.fn(key)
        for want in FNS:
            if f['name'].endswith(want):
                keys[want] = key
    nq = 0
    res = {}
    sem = {}
    for want in FNS:
        if want not in keys:
            ck.inconclusive.append('%s not found in the generator MIR' % want)
            continue
        ex = Exec(prog)
        argty = [prog.tk(t)['Ref'][1] for t in prog.arg_types(keys[want])]
        va, da, fa, names, wa = sym_enum(prog, argty[0], 'a')
        vb, db, fb, _, wb = sym_enum(prog, argty[1], 'b')
        ex.set_assumptions([wa, wb])
        paths = ex.explore_guided(keys[want], lambda: [Ref(Cell(va)), Ref(Cell(vb))])
        try:
            F = result_formula(paths)
        except Unsupported as e:
            ck.inconclusive.append('%s: %s' % (want, e))
            continue
        res[want] = (F, (da, fa), (db, fb), names, [wa, wb], len(paths))
    def decide(label, key, claim, assumptions):
        nonlocal nq
        s = z3.Solver()
        s.set('timeout', 120000)
        s.add(*assumptions)
        s.add(z3.Not(claim))
        r = s.check()
        nq += 1
        if r == z3.sat:
            m = s.model()
            ck.violation('versions/' + key, '%s fails for %s' % (label, ', '.join('%s=%s' % (d, m[d]) for d in m.decls() if not str(d).startswith('x'))[:300]), {'model': str(m)[:1500]}, confirmed=True)
        elif r != z3.unsat:
            ck.inconclusive.append('%s: solver gave no verdict' % label)
    if 'WorldVersion::overlaps' in res and 'WorldVersion::covers' in res:
        Fo, (da, fa), (db, fb), names, wf, _ = res['WorldVersion::overlaps']
        Fc = res['WorldVersion::covers'][0]
        x = (z3.BitVec('xm', 8), z3.BitVec('xi', 8), z3.BitVec('xp', 8), z3.BitVec('xb', 16))
        ma, mb = w_member(names, da, fa, x), w_member(names, db, fb, x)
        decide('WorldVersion::overlaps(a, b) <=> some build is matched by both a and b', 'world/overlaps', Fo == z3.Exists(list(x), z3.And(ma, mb)), wf)
        decide('WorldVersion::covers(a, b) <=> every build matched by b is matched by a', 'world/covers', Fc == z3.ForAll(list(x), z3.Implies(mb, ma)), wf)
        decide('WorldVersion::covers(a, b) => overlaps(a, b)', 'world/covers-implies-overlaps', z3.Implies(Fc, Fo), wf)
        # symmetry: swap the roles of a and b in the overlaps formula
        sub = [(da, db), (db, da)]
        for n in names:
            for u, v in zip(fa[n], fb[n]):
                sub += [(u, v), (v, u)]
        decide('WorldVersion::overlaps is symmetric', 'world/overlaps-symmetric', Fo == z3.substitute(Fo, *sub), wf)
    if 'LoginVersion::overlaps' in res and 'LoginVersion::fullfills' in res:
        Fo, (da, fa), (db, fb), names, wf, _ = res['LoginVersion::overlaps']
        Ff = res['LoginVersion::fullfills'][0]
        x = z3.BitVec('xl', 8)
        ma, mb = l_member(names, da, fa, x), l_member(names, db, fb, x)
        decide('LoginVersion::overlaps(a, b) <=> some protocol version is matched by both', 'login/overlaps', Fo == z3.Exists([x], z3.And(ma, mb)), wf)
        decide('LoginVersion::fullfills(a, b) <=> every protocol version matched by b is matched by a', 'login/fullfills', Ff == z3.ForAll([x], z3.Implies(mb, ma)), wf)
    ck.sample({'version_relations': {k: {'paths': v[5]} for k, v in res.items()}, 'queries': nq})
    return nq
