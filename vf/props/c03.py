"""C03 - decoding is total: any bytes give a message or an error, never a panic or abort.
MIRSYM executes the real read_inner of every message on (i) fully symbolic bodies of sizes the guard accepts and
(ii) canonical encodings whose suffix after each field boundary is replaced by symbolic bytes, with monitors for
panics, failed overflow checks, unwraps, unreachable code and allocation requests beyond a budget. Exploration is
concolic (each path follows a model of the not yet covered inputs) up to a path cap per query."""
import json
import multiprocessing as mp
import os
import re
import time
import traceback
import z3
from ..common import Check, log, NCPU, seed
from .. import wowm, messages, encode, native
from ..codec import CodecRunner
from ..mirsym import Unsupported, Ref, Cell, SliceRef, BV
from . import c01
from .c09 import guard_set, extremum

PROP = 'C03'
PRELUDE = '''use std::alloc::{GlobalAlloc, Layout, System};
use std::sync::atomic::{AtomicUsize, Ordering};
struct Counting;
static MAXREQ: AtomicUsize = AtomicUsize::new(0);
unsafe impl GlobalAlloc for Counting {
    unsafe fn alloc(&self, l: Layout) -> *mut u8 { MAXREQ.fetch_max(l.size(), Ordering::Relaxed); System.alloc(l) }
    unsafe fn dealloc(&self, p: *mut u8, l: Layout) { System.dealloc(p, l) }
}
#[global_allocator]
static COUNTING: Counting = Counting;'''
BAD = ('panic', 'unreachable', 'alloc', 'diverged')


def site_of(status, detail):
    """stable identifier of the failing site: the function (without generic arguments) where the path ended"""
    d = detail
    m = re.search(r'in (<?[\w:<>& ,\[\]\']+?)(?:::<|$| bb)', d)
    fn = m.group(1) if m else d
    fn = re.sub(r'<[^<>]*>', '', fn)
    fn = re.sub(r'roots::', '', fn)
    kind = status
    if status == 'alloc':
        kind = 'alloc-unguarded' if 'no effective guard' in d else 'alloc'
    if 'Overflow' in d:
        kind = 'overflow'
    elif 'assert_failed' in d or 'assert:' in d:
        kind = 'assert'
    elif 'unwrap_failed' in d or 'expect_failed' in d:
        kind = 'unwrap'
    elif 'panic_fmt' in d or 'panicking::panic' in d:
        kind = 'panic'
    segs = [x for x in fn.split('::') if x]
    # role key: the bounded-by-wire-size `Vec::with_capacity(count)` of the array-read template the generator prints into
    # every generated reader is ONE call site of the generator; its instances in the generated read_inner / read
    # functions share one key. Hand-written readers (util, helper, manual) and unguarded allocations keep their own.
    if kind == 'alloc' and segs and segs[-1] in ('read_inner', 'read') and any(x in ('vanilla', 'tbc', 'wrath', 'shared', 'logon', 'version_2', 'version_3', 'version_5', 'version_6', 'version_7', 'version_8', 'all') for x in segs) and 'util' not in segs and 'helper' not in segs and 'manual' not in segs:
        return 'alloc@generated array reader (Vec::with_capacity(count) bounded by wire size)'
    return (kind + '@' + '::'.join(segs[-2:])[:80]) if segs else kind


def explore(R, key, mk_args, cons, B, cap):
    ex = R.ex
    ex.max_paths = cap
    ex.set_assumptions(cons)
    out = []
    npaths = 0
    truncated = False
    stack = []

    def on_path(P):
        pass
    for P in ex.explore_guided(key, mk_args):
        npaths += 1
        if P.status == 'unsupported':
            if 'path budget' in P.detail:
                truncated = True
                continue
            raise Unsupported(P.detail)
        if P.status in BAD:
            m = R.sat(cons + P.pc)
            if m is not None:
                out.append({'status': P.status, 'detail': P.detail[:300], 'site': site_of(P.status, P.detail), 'body': R.concretize(m, B)})
    return out, npaths, truncated


def check_message(R, corpus, view, cont, path, fns, kind, tier, sd):
    r = {'path': path, 'findings': [], 'inc': [], 'queries': 0, 'paths': 0, 'truncated': 0, 'file': cont['file']}
    cap = 16 if tier == 'quick' else 48
    key = fns['read']['key']
    lens = []
    if kind == 'world':
        s, G = guard_set(R, fns)
        gmin, gmax = extremum(s, G, False), extremum(s, G, True)
        if gmin is None:
            return r
        lens = sorted(set([gmin, min(gmax, gmin + 9)] + ([min(gmax, gmin + 1), min(gmax, gmin + 40)] if tier != 'quick' else [])))
    else:
        lens = [3, 40] if tier == 'quick' else [0, 3, 12, 40, 90]
    seen = set()
    for L in lens:
        buf = [z3.BitVec('in%d' % i, 8) for i in range(L)]

        def mk():
            rr = Ref(Cell(SliceRef(list(buf), 0, L)))
            return [rr, BV(L, 32)] if kind == 'world' else [rr]
        fs, n, trunc = explore(R, key, mk, [], buf, cap)
        r['queries'] += 1
        r['paths'] += n
        r['truncated'] += 1 if trunc else 0
        for f in fs:
            if f['site'] in seen:
                continue
            seen.add(f['site'])
            f['input'] = 'symbolic body of %d bytes' % L
            r['findings'].append(f)
    # (ii) canonical prefix + symbolic suffix at every field boundary of the baseline shape
    try:
        bounds = encode.Bounds('quick')
        bounds.max_shapes = 1 if tier == 'quick' else 2
        for enc, ch in encode.shapes(corpus, view, cont, bounds, sd):
            if R.sat(enc.cons) is None:
                continue
            n = len(enc.bytes)
            cuts = sorted(set(a for (_, _, a, b, _) in enc.fields if 0 < a < n))
            maxcuts = 3 if tier == 'quick' else 6
            if len(cuts) > maxcuts:
                step = max(1, len(cuts) // maxcuts)
                cuts = cuts[::step][:maxcuts]
            for k in cuts:
                tail = [z3.BitVec('sfx%d' % i, 8) for i in range(n - k)]
                B = list(enc.bytes[:k]) + tail

                def mk2():
                    rr = Ref(Cell(SliceRef(list(B), 0, n)))
                    return [rr, BV(n, 32)] if kind == 'world' else [rr]
                fs, np_, trunc = explore(R, key, mk2, list(enc.cons), B, cap)
                r['queries'] += 1
                r['paths'] += np_
                r['truncated'] += 1 if trunc else 0
                for f in fs:
                    if f['site'] in seen:
                        continue
                    seen.add(f['site'])
                    f['input'] = 'canonical prefix of %d bytes + symbolic suffix of %d bytes' % (k, n - k)
                    r['findings'].append(f)
            break
    except encode.NotSupported:
        pass
    return r


def worker(job):
    dump, kind, tier, sd, idxs = job
    corpus = wowm.Corpus()
    targets = messages.world_targets(corpus) if kind == 'world' else messages.login_targets(corpus)
    R = CodecRunner(dump)
    R.ex.alloc_budget = 16 << 20
    from ..inventory import Inventory
    inv = Inventory(R.prog)
    lib = open(os.path.join(os.path.dirname(dump), 'src', 'lib.rs')).read().splitlines()
    item_fn = {}
    for line in lib:
        m = re.search(r'pub fn (\w+)\(.*/\*ITEM:(.*?)\*/', line)
        if m:
            item_fn[m.group(2)] = m.group(1)
    out = []
    for i in idxs:
        view, cont, path = targets[i]
        t0 = time.time()
        try:
            fn = item_fn.get('ty|' + path)
            t = R.prog.tk(inv.type_of_local_arg(fn, 0))['Ref'][1]
            fns = messages.codec_fns(inv, t, kind)
            if 'read' not in fns:
                raise Unsupported('read_inner not found')
            r = check_message(R, corpus, view, cont, path, fns, kind, tier, sd)
        except Unsupported as e:
            r = {'path': path, 'findings': [], 'inc': ['%s: %s' % (path, str(e)[:300])], 'queries': 0, 'paths': 0, 'truncated': 0, 'file': cont['file']}
        except Exception:
            r = {'path': path, 'findings': [], 'inc': ['%s: checker exception %s' % (path, traceback.format_exc()[-500:])], 'queries': 0, 'paths': 0, 'truncated': 0, 'file': cont['file']}
        r['idx'] = i
        r['secs'] = time.time() - t0
        out.append(r)
    return out, R.queries, R.solver_s + R.ex.stats['solver_s'], sorted(R.ex.fns_reached)


def run(tier, only=None):
    ck = Check(PROP, tier, 'model_checking')
    corpus = wowm.Corpus()
    sd = seed()
    tot = {'messages': 0, 'queries': 0, 'paths': 0, 'truncated': 0, 'solver_s': 0.0}
    fn_names = set()
    pending = []
    for kind in ('login', 'world'):
        prog, inv, res, dropped = messages.build(kind, corpus)
        targets = messages.world_targets(corpus) if kind == 'world' else messages.login_targets(corpus)
        idxs = [i for i, (v, c, p) in enumerate(targets) if not only or only in p]
        if not idxs:
            continue
        nproc = min(NCPU, len(idxs))
        chunks = [c for c in (idxs[j::nproc * 4] for j in range(nproc * 4)) if c]
        with mp.Pool(nproc) as pool:
            results = pool.map(worker, [(prog.path, kind, tier, sd, c) for c in chunks], chunksize=1)
        for out, q, ss, fns in results:
            tot['solver_s'] += ss
            fn_names.update(fns)
            for r in out:
                tot['messages'] += 1
                tot['queries'] += r['queries']
                tot['paths'] += r['paths']
                tot['truncated'] += r['truncated']
                ck.inconclusive.extend(r['inc'])
                if r['paths'] > 20 and len(ck.cov['samples']) < 8:
                    ck.sample({'message': r['path'], 'symbolic_queries': r['queries'], 'mir_paths': r['paths'], 'path_capped_queries': r['truncated'], 'secs': round(r['secs'], 2)})
                for f in r['findings']:
                    view, cont, path = targets[r['idx']]
                    pending.append((kind, view, cont, path, f))
    # one violation per (site) and message is too noisy when a shared primitive is at fault: key by site + one representative message per site
    by_site = {}
    for kind, view, cont, path, f in pending:
        by_site.setdefault(f['site'], []).append((kind, view, cont, path, f))
    cases = {'world': [], 'login': []}
    reps = []
    for site, lst in sorted(by_site.items()):
        lst.sort(key=lambda t: t[3])
        # replay up to 3 representatives per site (first of each kind/expansion)
        chosen = lst[:3]
        reps.append((site, lst, chosen))
        for kind, view, cont, path, f in chosen:
            key = 'site:%s' % site
            if ck.known.match(PROP, key) is not None:
                continue
            frame = c01.frame_bytes(kind, cont, view, f['body'])
            f['frame'] = frame
            f['rust'] = '{ MAXREQ.store(0, std::sync::atomic::Ordering::Relaxed); let r: String = %s; format!("{} MAXALLOC {}", r, MAXREQ.load(std::sync::atomic::Ordering::Relaxed)) }' % c01.rust_replay(kind, cont, view, path, frame)
            cid = '%s#%d' % (path, len(cases[kind]))
            f['case'] = cid
            cases[kind].append((cid, f['rust']))
    outs = {}
    for kind in cases:
        if cases[kind]:
            try:
                outs.update(native.eval_cases(kind, cases[kind], prelude=PRELUDE))
            except Exception as e:
                ck.inconclusive.append('native replay failed to build: %s' % str(e)[-400:])
    for site, lst, chosen in reps:
        key = 'site:%s' % site
        msgs = sorted(set(t[3] for t in lst))
        confirmed = False
        natives = []
        for kind, view, cont, path, f in chosen:
            o = outs.get(f.get('case'))
            natives.append((path, o))
            if o and any(x and x.startswith('PANIC') for x in o):
                confirmed = True
            if o and f['status'] == 'alloc':
                for x in o:
                    mm = re.search(r'MAXALLOC (\d+)', x or '')
                    if mm and int(mm.group(1)) > (16 << 20):
                        confirmed = True
        kind, view, cont, path, f = chosen[0]
        ck.violation(key, 'decoder can abort: %s (%s) - reached in %d message(s), e.g. %s with %s; native=%r' % (site, f['detail'][:120], len(msgs), path, f['input'], natives[:2]),
                     {'site': site, 'messages': msgs[:50], 'example': dict(f, message=path, kind_of_message=kind), 'natives': natives}, confirmed=confirmed)
    ck.assume('monitors: reachable Assert failure (dev-profile overflow checks), core::panicking::*, unwrap/expect on None/Err, unreachable, allocation request whose byte size can exceed 16 MiB under the path condition')
    ck.assume('inputs: fully symbolic bodies of min and min+9 bytes (quick; thorough adds min+1, min+40) accepted by the guard; canonical prefix + symbolic suffix at 3 (quick) / up to 6 (thorough) field boundaries of the first 1 / 2 shapes; concolic path cap per query 16 (quick) / 48 (thorough): beyond the cap paths are not explored (bounded exploration, stated)')
    ck.assume('header-level parsing (vec![0; size] bounded by the size field) is covered by C02-C; zlib payloads (flate2) are outside the encoding')
    return ck.finish({'states': max(tot['paths'], 1), 'transitions': max(tot['queries'], 1), 'traces_validated_against_impl': sum(len(c) for c in cases.values()),
                      'messages': tot['messages'], 'symbolic_input_queries': tot['queries'], 'mir_paths': tot['paths'], 'path_capped_queries': tot['truncated'], 'solver_s': round(tot['solver_s'], 1),
                      'distinct_abort_sites': len(by_site), 'functions_encoded_count': len(fn_names), 'functions_encoded': sorted(fn_names)[:60],
                      'bounds': 'buffer lengths and path caps as listed in assumptions; all byte values symbolic',
                      'rule': 'per (message, input template): every explored MIR path must end in Ok/Err; a path ending in a monitor event is solved for concrete bytes and replayed natively'},
                     fail_on_inconclusive=False)


def replay(path):
    j = json.load(open(path))
    ex = j.get('example') or j
    if not ex.get('rust'):
        print(j.get('what'))
        return 1
    dep = 'login' if ex.get('kind_of_message') == 'login' else 'world'
    o = native.eval_cases(dep, [('x', ex['rust'])], prelude=PRELUDE)['x']
    print('native:', o)
    big = any(int(m.group(1)) > (16 << 20) for x in (o or []) for m in [re.search(r'MAXALLOC (\d+)', x or '')] if m)
    if o and (any(x and x.startswith('PANIC') for x in o) or big):
        print('VIOLATION property=%s replay=%s' % (PROP, path))
        return 1
    return 0
