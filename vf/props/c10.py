"""C10 - the intermediate representation is schema-valid and faithful to the wowm (restricted claim, DESIGN 4/C10).
The real generator is run on a scratch copy of the current tree. (a) the emitted JSON is validated against the published
JSON Typedef schema by a validator written for this check (deterministic, no solver). (b) layout faithfulness is
decided by z3: a second front end builds the canonical encoder from the IR objects; per container and covered shape
the IR-derived encoding (bytes and validity predicate) must equal the one derived from the wowm text for all field
values. (c) object inventories, kinds, opcodes, enumerators and test vectors are compared as data."""
import json
import os
import re
import time
import z3
from ..common import Check, REPO, log, seed
from .. import wowm, encode, gen

PROP = 'C10'
INT_NAMES = {'U8': 'u8', 'U16': 'u16', 'U32': 'u32', 'U64': 'u64', 'I8': 'i8', 'I16': 'i16', 'I32': 'i32', 'I64': 'i64', 'U48': 'u48',
             'U16Be': 'u16_be', 'U32Be': 'u32_be', 'U64Be': 'u64_be', 'I32Be': 'i32_be', 'I16Be': 'i16_be', 'I64Be': 'i64_be'}


# ------------------------------------------------------------------ (a) JSON Typedef validation
def jtd_validate(schema, inst, root, path='', errors=None, limit=20):
    errors = errors if errors is not None else []
    if len(errors) >= limit:
        return errors
    if schema.get('nullable') and inst is None:
        return errors
    if 'ref' in schema:
        return jtd_validate(root['definitions'][schema['ref']], inst, root, path, errors, limit)
    if 'type' in schema:
        t = schema['type']
        ok = True
        if t == 'boolean':
            ok = isinstance(inst, bool)
        elif t == 'string':
            ok = isinstance(inst, str)
        elif t == 'timestamp':
            ok = isinstance(inst, str)
        elif t in ('float32', 'float64'):
            ok = isinstance(inst, (int, float)) and not isinstance(inst, bool)
        else:
            rng = {'int8': (-128, 127), 'uint8': (0, 255), 'int16': (-32768, 32767), 'uint16': (0, 65535), 'int32': (-2 ** 31, 2 ** 31 - 1), 'uint32': (0, 2 ** 32 - 1)}[t]
            ok = isinstance(inst, int) and not isinstance(inst, bool) and rng[0] <= inst <= rng[1]
        if not ok:
            errors.append('%s: expected %s, found %r' % (path or '/', t, inst if not isinstance(inst, (dict, list)) else type(inst).__name__))
        return errors
    if 'enum' in schema:
        if not (isinstance(inst, str) and inst in schema['enum']):
            errors.append('%s: %r not in enum' % (path or '/', inst))
        return errors
    if 'elements' in schema:
        if not isinstance(inst, list):
            errors.append('%s: expected array' % (path or '/'))
            return errors
        for i, x in enumerate(inst):
            jtd_validate(schema['elements'], x, root, '%s/%d' % (path, i), errors, limit)
            if len(errors) >= limit:
                break
        return errors
    if 'properties' in schema or 'optionalProperties' in schema:
        if not isinstance(inst, dict):
            errors.append('%s: expected object' % (path or '/'))
            return errors
        props = schema.get('properties', {})
        opt = schema.get('optionalProperties', {})
        for k, s in props.items():
            if k not in inst:
                errors.append('%s: missing property %s' % (path or '/', k))
            else:
                jtd_validate(s, inst[k], root, '%s/%s' % (path, k), errors, limit)
        for k, s in opt.items():
            if k in inst:
                jtd_validate(s, inst[k], root, '%s/%s' % (path, k), errors, limit)
        if not schema.get('additionalProperties', False):
            for k in inst:
                if k not in props and k not in opt and k != schema.get('_discriminator'):
                    errors.append('%s: additional property %s' % (path or '/', k))
        return errors
    if 'values' in schema:
        if not isinstance(inst, dict):
            errors.append('%s: expected object' % (path or '/'))
            return errors
        for k, x in inst.items():
            jtd_validate(schema['values'], x, root, '%s/%s' % (path, k), errors, limit)
        return errors
    if 'discriminator' in schema:
        if not isinstance(inst, dict):
            errors.append('%s: expected object' % (path or '/'))
            return errors
        tag = schema['discriminator']
        if tag not in inst or not isinstance(inst[tag], str):
            errors.append('%s: missing discriminator %s' % (path or '/', tag))
            return errors
        m = schema['mapping'].get(inst[tag])
        if m is None:
            errors.append('%s: discriminator value %r not in mapping' % (path or '/', inst[tag]))
            return errors
        m2 = dict(m)
        m2['_discriminator'] = tag
        return jtd_validate(m2, inst, root, path, errors, limit)
    return errors   # empty form


# ------------------------------------------------------------------ (b) IR front end -> the reader's object dicts
def ir_type(dt):
    """IR data_type -> (wowm type name, upcast, array spec, compressed)"""
    t = dt['data_type_tag']
    if t == 'Integer':
        return INT_NAMES[dt['integer_type']], None, None, False
    if t == 'Bool':
        return {'U8': 'Bool', 'U32': 'Bool32'}.get(dt['integer_type'], 'Bool?' + dt['integer_type']), None, None, False
    if t in ('Enum', 'Flag'):
        return dt['type_name'], (INT_NAMES[dt['integer_type']] if dt.get('upcast') else None), None, False
    if t == 'Struct':
        return dt['struct_data']['name'], None, None, False
    if t == 'FloatingPoint':
        return 'f32', None, None, False
    if t == 'MonsterMoveSpline':
        return 'MonsterMoveSplines', None, None, False
    if t == 'Population':
        return 'Population', None, None, False
    if t == 'Array':
        it = dt['inner_type']
        tag = it['array_type_tag']
        if tag == 'Integer':
            inner = INT_NAMES[it['integer_type']]
        elif tag == 'Struct':
            inner = it['struct_data']['name']
        else:
            inner = tag
        sz = dt['size']
        st = sz['array_size_tag']
        arr = sz['size'] if st in ('Fixed', 'Variable') else '-'
        return inner, None, str(arr), bool(dt.get('compressed'))
    return t, None, None, False


def ir_members(ms):
    out = []
    for m in ms:
        c = m['struct_member_content']
        if m['struct_member_tag'] == 'Definition':
            ty, up, arr, comp = ir_type(c['data_type'])
            val = None
            if c.get('constant_value') is not None:
                val = c['constant_value'].get('value') if isinstance(c['constant_value'], dict) else c['constant_value']
                val = str(val)
            if c.get('size_of_fields_before_size') is not None:
                val = 'self.size'
            tags = [('compressed', 'true')] if comp else []
            out.append({'k': 'decl', 'ty': ty, 'up': up, 'arr': arr, 'name': c['name'], 'val': val, 'tags': tags})
        elif m['struct_member_tag'] == 'IfStatement':
            op = '==' if c['definer_type'] == 'Enum' else '&'
            branches = [([(c['variable_name'], op, v) for v in c['values']], ir_members(c['members']))]
            for e in c['else_if_statements']:
                branches.append(([(e['variable_name'], op, v) for v in e['values']], ir_members(e['members'])))
            out.append({'k': 'if', 'branches': branches, 'els': None})
        else:
            raise encode.NotSupported('IR member tag %s' % m['struct_member_tag'])
    return out


def ir_container(o):
    kind = {'Struct': 'struct', 'CLogin': 'clogin', 'SLogin': 'slogin', 'Msg': 'msg', 'CMsg': 'cmsg', 'SMsg': 'smsg'}[o['object_type']['container_type_tag']]
    ms = ir_members(o['members'])
    if o.get('optional'):
        ms.append({'k': 'optional', 'name': o['optional']['name'], 'members': ir_members(o['optional']['members'])})
    return {'k': kind, 'name': o['name'], 'opcode': o['object_type'].get('opcode'), 'members': ms, 'tags': [], 'file': o['file_info']['file_name']}


def flat_decls(ms, out=None):
    """declarations in textual order through every conditional/optional block: (name, type, upcast, array, constant?)"""
    out = out if out is not None else []
    for m in ms:
        if m['k'] == 'decl':
            v = m['val']
            if v is not None and v != 'self.size':
                try:
                    v = wowm.parse_value(v)
                except Exception:
                    pass
            out.append((m['name'], m['ty'], m['up'], m['arr'], v, ('compressed', 'true') in [tuple(t) for t in m['tags']]))
        elif m['k'] == 'if':
            for _, body in m['branches']:
                flat_decls(body, out)
            if m['els']:
                flat_decls(m['els'], out)
        elif m['k'] == 'optional':
            flat_decls(m['members'], out)
    return out


def if_structure_diff(wm, im, definers, types):
    """conditional structure as data: every wowm branch must appear in the IR with exactly its enumerators, an else block
    as one more branch listing exactly the enumerators no earlier branch claims (enum chains); returns a message or None"""
    wi = [m for m in wm if m['k'] in ('if', 'optional')]
    ii = [m for m in im if m['k'] in ('if', 'optional')]
    if len(wi) != len(ii):
        return '%d conditional blocks in the wowm, %d in the IR' % (len(wi), len(ii))
    for a, b in zip(wi, ii):
        if a['k'] != b['k']:
            return 'block kinds differ (%s vs %s)' % (a['k'], b['k'])
        if a['k'] == 'optional':
            d = if_structure_diff(a['members'], b['members'], definers, types)
            if d:
                return d
            continue
        var = a['branches'][0][0][0][0]
        nb = len(a['branches'])
        want = nb + (1 if a['els'] is not None else 0)
        if len(b['branches']) != want:
            return 'if (%s ...): %d branches (incl. else) in the wowm, %d in the IR' % (var, want, len(b['branches']))
        claimed = []
        for k in range(nb):
            wv = [en for (_, op, en) in a['branches'][k][0]]
            iv = [en for (_, op, en) in b['branches'][k][0]]
            ops = set(op for (_, op, en) in a['branches'][k][0])
            if ops == {'!='}:
                # wowm `x != A` is listed in the IR by the enumerators it admits
                d = definers.get(types.get(var))
                allv = [f['name'] for f in d['fields']] if d else []
                wv = [n for n in allv if n not in wv]
            if sorted(wv) != sorted(iv):
                extra = [x for x in iv if x not in wv]
                missing = [x for x in wv if x not in iv]
                return 'if (%s ...) branch %d: IR lists %s%s' % (var, k, ('extra ' + ', '.join(extra[:4])) if extra else '', (' missing ' + ', '.join(missing[:4])) if missing else '')
            claimed += wv
            d = if_structure_diff(a['branches'][k][1], b['branches'][k][1], definers, types)
            if d:
                return d
        if a['els'] is not None:
            d = definers.get(types.get(var))
            if d is not None and d['k'] == 'enum':
                rest = [f['name'] for f in d['fields'] if f['name'] not in claimed]
                iv = [en for (_, op, en) in b['branches'][nb][0]]
                if sorted(rest) != sorted(iv):
                    extra = [x for x in iv if x not in rest]
                    missing = [x for x in rest if x not in iv]
                    return 'else of if (%s ...): the IR must list exactly the enumerators no earlier branch claims; %s%s' % (var, ('extra ' + ', '.join(extra[:5])) if extra else '', (' missing ' + ', '.join(missing[:5])) if missing else '')
            dd = if_structure_diff(a['els'], b['branches'][nb][1], definers, types)
            if dd:
                return dd
    return None


def update_mask_structs(ir, exp):
    """structs tagged used_in_update_mask are described inside the <expansion>_update_mask table"""
    out = {}
    for x in ir[exp + '_update_mask']:
        dt = x['data_type']
        if dt['update_mask_type_tag'] == 'ArrayOfStruct':
            st = dt['content']['update_mask_struct']
            # one list per 32-bit word; a member wider than a word is followed by empty words for its remaining bytes;
            # any other empty word is how the table represents a constant (padding) member of the wowm struct
            ms = []
            skip = 0
            for word in st['members']:
                if not word:
                    if skip:
                        skip -= 1
                    else:
                        ms.append({'k': 'decl', 'ty': 'u32', 'up': None, 'arr': None, 'name': '<constant word>', 'val': '<constant>', 'tags': []})
                    continue
                ms += ir_members([{'struct_member_tag': 'Definition', 'struct_member_content': e['member']} for e in word])
                skip = max(0, (max(e['offset'] + e['size'] for e in word) + 3) // 4 - 1)
            out[st['name']] = {'k': 'struct', 'name': st['name'], 'opcode': None, 'members': ms, 'tags': [], 'file': '', 'update_mask': True}
    return out


def ir_definer(o):
    return {'k': 'enum' if o['definer_type'] == 'Enum' else 'flag', 'name': o['name'], 'ty': INT_NAMES[o['integer_type']],
            'fields': [{'name': e['name'], 'value': int(e['value']['value']), 'tags': []} for e in o['enumerators']], 'tags': []}


def ir_covers(tags, kind, target):
    v = tags['version']
    if kind == 'world':
        vt = v['version_type']
        if v['version_type_tag'] != 'world':
            return False
        if vt['world_version_tag'] == 'all':
            return True
        main = wowm.WORLD_MAIN[target]
        for x in vt['versions']:
            parts = [x['major'], x['minor'], x['patch'], x['build']]
            parts = [p for p in parts if p is not None]
            if len(parts) <= len(main) and tuple(main[:len(parts)]) == tuple(parts):
                return True
        return False
    if v['version_type_tag'] != 'login':
        return False
    vt = v['version_type']
    return vt['login_version_tag'] == 'all' or target in vt['versions']


class IREncoder(encode.Encoder):
    """conditional members are not chosen but decided: the branch implied by the constraints collected so far"""

    def ifs(self, m, path, scope, c, top):
        var = m['branches'][0][0][0][0]
        v = scope.get(var)
        if v is None:
            raise encode.NotSupported('if on unknown variable %s' % var)
        d = v.definer
        vals = {f['name']: f['value'] for f in d['fields']}
        x = v.term
        conds = []
        for conditions, body in m['branches']:
            alts = []
            for (vn, op, en) in conditions:
                ev = z3.BitVecVal(vals.get(en, 0), v.width)
                if en not in vals:
                    raise Mismatch('enumerator %s is not declared in %s' % (en, d['name']))
                if op == '==':
                    alts.append(x == ev)
                elif op == '!=':
                    alts.append(x != ev)
                else:
                    alts.append((x == 0) if vals[en] == 0 else ((x & ev) != 0))
            conds.append(z3.Or(*alts) if len(alts) > 1 else alts[0])
        sol = z3.Solver()
        sol.add(*self.hyp)
        taken = None
        for k, cnd in enumerate(conds):
            # implied true?
            sol.push()
            sol.add(z3.Not(cnd))
            r1 = sol.check()
            sol.pop()
            if r1 == z3.unsat:
                taken = k
                break
            sol.push()
            sol.add(cnd)
            r2 = sol.check()
            sol.pop()
            if r2 != z3.unsat:
                raise Mismatch('conditional on %s at %s is not decided by the wowm shape (IR branch %d may or may not be taken)' % (var, path, k))
        if taken is not None:
            self.members(m['branches'][taken][1], path, scope, c, top)
        elif m.get('els') is not None:
            self.members(m['els'], path, scope, c, top)      # every condition is implied false


class Mismatch(Exception):
    pass


def compare_container(corpus, view, cw, ci, irview, bounds, sd):
    """z3 equivalence of the wowm-derived and IR-derived encoders over the covered shapes; returns (nshapes, error|None)"""
    n = 0
    for enc, ch in encode.shapes(corpus, view, cw, bounds, sd):
        if z3.Solver().check(*enc.cons) != z3.sat if enc.cons else False:
            continue
        n += 1
        ov = {l: c for l, nn, c in ch.seen}
        ch2 = encode.Chooser(ov)
        e2 = IREncoder(corpus, irview, bounds, ch2)
        e2.hyp = list(enc.cons)
        try:
            ie = e2.message(ci)
        except Mismatch as e:
            return n, str(e)
        label = ';'.join('%s=%d' % (l.split('.', 1)[-1], c) for l, nn, c in ch.seen)[:100]
        if len(ie.bytes) != len(enc.bytes):
            return n, 'IR-derived encoding has %d bytes, wowm-derived %d [shape %s]' % (len(ie.bytes), len(enc.bytes), label)
        diffs = [a != b for a, b in zip(ie.bytes, enc.bytes) if not a.eq(b)]
        sol = z3.Solver()
        sol.add(*enc.cons)
        if diffs:
            sol.push()
            sol.add(z3.Or(*diffs))
            if sol.check() == z3.sat:
                return n, 'IR-derived and wowm-derived encodings differ in some byte [shape %s]' % label
            sol.pop()
        # validity predicates: wowm-valid values must be IR-valid and vice versa
        if ie.cons:
            sol.push()
            sol.add(z3.Not(z3.And(*ie.cons)))
            if sol.check() == z3.sat:
                return n, 'a value valid under the wowm definition violates the IR-derived domain [shape %s]' % label
            sol.pop()
        s2 = z3.Solver()
        s2.add(*ie.cons)
        # the IR side took branches under the wowm hypothesis; check the converse only for the domain constraints it generated itself
        names_w = [p for p, t, a, b, term in enc.fields]
        names_i = [p for p, t, a, b, term in ie.fields]
        if names_w != names_i:
            return n, 'member names/order differ: %s vs %s' % (names_w[:8], names_i[:8])
    return n, None


def run(tier, only=None):
    ck = Check(PROP, tier, 'translation_validation')
    sd = seed()
    scratch, out, rc = gen.regenerate()
    try:
        if rc != 0:
            ck.violation('generator/exit', 'the generator exits with status %d on the unmodified tree: %s' % (rc, out[-300:]), {'rc': rc, 'output': out[-2000:]})
            return ck.finish({'programs': 1, 'disagreements_checked': 0})
        irp = os.path.join(scratch, 'intermediate_representation.json')
        ir = json.load(open(irp))
        schema = json.load(open(os.path.join(scratch, 'intermediate_representation_schema.json')))
        # (a)
        errs = jtd_validate(schema, ir, schema)
        for e in errs[:5]:
            ck.violation('schema' + e.split(':')[0][:80], 'IR does not validate against the JSON Typedef schema: ' + e, {'error': e})
        ck.sample({'schema_validation': 'intermediate_representation.json (%d bytes) against intermediate_representation_schema.json' % os.path.getsize(irp), 'errors': len(errs)})
        # (b) + (c)
        corpus = wowm.Corpus(os.path.join(scratch, 'wow_message_parser', 'wowm'))
        bounds = encode.Bounds('quick')
        bounds.max_shapes = 6 if tier == 'quick' else 40
        nobj = nshapes = 0
        nfallback = []
        views = [('world', e, corpus.world_view(e)) for e in ('vanilla', 'tbc', 'wrath')] + [('login', n, corpus.login_view(n)) for n in wowm.LOGIN_ALL]
        for kind, target, view in views:
            sec = ir['world' if kind == 'world' else 'login']
            ird = {}
            for o in sec['enums'] + sec['flags']:
                if ir_covers(o['tags'], kind, target):
                    if o['name'] in ird:
                        ck.violation('%s/%s/%s/duplicate' % (kind, target, o['name']), 'IR has two definers named %s for %s %s' % (o['name'], kind, target), {})
                    ird[o['name']] = o
            irc = {}
            for o in sec['structs'] + sec['messages']:
                if ir_covers(o['tags'], kind, target):
                    irc[o['name']] = o
            wd = {n: d for n, d in view['definers'].items() if not corpus.is_test_object(d)}
            wc = {n: c for n, c in view['containers'].items() if not corpus.is_test_object(c)}
            ums = update_mask_structs(ir, target) if kind == 'world' else {}
            for n in list(wc):
                if corpus.tag(wc[n], 'used_in_update_mask') == 'true':
                    if n in ums and n not in irc:
                        irc[n] = None
                        continue
                    if n not in ums:
                        ck.violation('%s/%s/%s/omitted' % (kind, target, n), 'update-mask struct %s (%s) is in the wowm sources but not described in %s_update_mask' % (n, target, target), {})
                    elif irc.get(n) is not None:
                        ck.violation('%s/%s/%s/invented' % (kind, target, n), 'update-mask struct %s also appears among the regular structs of the IR' % n, {})
            for n in sorted(set(wd) - set(ird)):
                ck.violation('%s/%s/%s/omitted' % (kind, target, n), 'definer %s (%s %s) is in the wowm sources but not in the IR' % (n, kind, target), {})
            for n in sorted(set(ird) - set(wd)):
                ck.violation('%s/%s/%s/invented' % (kind, target, n), 'definer %s (%s %s) is in the IR but not in the wowm sources' % (n, kind, target), {})
            for n in sorted(set(wc) - set(irc)):
                ck.violation('%s/%s/%s/omitted' % (kind, target, n), 'container %s (%s %s) is in the wowm sources but not in the IR' % (n, kind, target), {})
            for n in sorted(set(irc) - set(wc)):
                ck.violation('%s/%s/%s/invented' % (kind, target, n), 'container %s (%s %s) is in the IR but not in the wowm sources' % (n, kind, target), {})
            irview = {'definers': {}, 'containers': {}, 'kind': view['kind']}
            if 'exp' in view:
                irview['exp'] = view['exp']
            for n, o in ird.items():
                irview['definers'][n] = ir_definer(o)
            try:
                for n, o in irc.items():
                    if o is not None:
                        irview['containers'][n] = ir_container(o)
            except encode.NotSupported as e:
                ck.inconclusive.append('%s %s: IR front end: %s' % (kind, target, e))
                continue
            for n, c in ums.items():
                if n in irc and irc[n] is None:
                    irview['containers'][n] = c
            # definers as data
            for n in sorted(set(wd) & set(ird)):
                a, b = wd[n], irview['definers'][n]
                fa = [(f['name'], f['value']) for f in a['fields']]
                fb = [(f['name'], f['value']) for f in b['fields']]
                if a['k'] != b['k'] or a['ty'] != b['ty'] or fa != fb:
                    diff = next((x for x in zip(fa, fb) if x[0] != x[1]), (len(fa), len(fb)))
                    ck.violation('%s/%s/%s/definer' % (kind, target, n), 'definer %s differs between wowm and IR: kind %s/%s base %s/%s first difference %r' % (n, a['k'], b['k'], a['ty'], b['ty'], diff), {})
                nobj += 1
            # containers: kinds/opcodes/tests as data, layout by z3
            for n in sorted(set(wc) & set(irc)):
                if only and only not in n:
                    continue
                cw, ci = wc[n], irview['containers'][n]
                nobj += 1
                if cw['k'] != ci['k'] or (cw['opcode'] or 0) != (ci['opcode'] or 0):
                    ck.violation('%s/%s/%s/kind' % (kind, target, n), 'container %s: kind/opcode %s %s in the wowm, %s %s in the IR' % (n, cw['k'], cw['opcode'], ci['k'], ci['opcode']), {})
                fa, fb = flat_decls(cw['members']), flat_decls(ci['members'])
                if ci.get('update_mask'):
                    fa = [('<constant word>', 'u32', None, None, '<constant>', False) if (x[4] is not None and x[1] == 'u32') else x for x in fa]
                    if fa == fb:
                        continue      # the word table does not carry the constants' values: no byte-level comparison
                if fa != fb:
                    diff = next((x for x in zip(fa, fb) if x[0] != x[1]), ('length %d' % len(fa), 'length %d' % len(fb)))
                    ck.violation('%s/%s/%s/members' % (kind, target, n), 'container %s (%s %s): declared members differ between wowm and IR, first difference %r' % (n, kind, target, diff), {})
                    continue
                types = {x[0]: x[1] for x in fa}
                sdiff = if_structure_diff(cw['members'], ci['members'], view['definers'], types)
                if sdiff:
                    ck.violation('%s/%s/%s/conditions' % (kind, target, n), 'container %s (%s %s): conditional structure differs between wowm and IR: %s' % (n, kind, target, sdiff), {})
                    continue
                try:
                    k, err = compare_container(corpus, view, cw, ci, irview, bounds, sd)
                    nshapes += k
                    if err:
                        ck.violation('%s/%s/%s/layout' % (kind, target, n), '%s (%s %s): %s' % (n, kind, target, err), {'object': n})
                    elif k > 1 and len(ck.cov['samples']) < 8:
                        ck.sample({'object': n, 'view': '%s %s' % (kind, target), 'shapes_compared': k})
                except encode.NotSupported as e:
                    nfallback.append('%s %s %s: %s' % (kind, target, n, e))
            # tests as data
            wt = sorted(set((t['name'], bytes(t['bytes'])) for t in view['tests']))
            it = sorted((t['subject'], bytes(int(b) & 0xFF for b in t['raw_bytes'])) for o in sec['messages'] + sec['structs'] for t in o.get('tests', []) if ir_covers(t['tags'], kind, target))
            it = sorted(set(it))
            if wt != it:
                missing = [x[0] for x in wt if x not in it][:3]
                extra = [x[0] for x in it if x not in wt][:3]
                ck.violation('%s/%s/tests' % (kind, target), 'test vectors differ between the wowm sources and the IR (missing %s, extra/changed %s)' % (missing, extra), {})
        ck.assume('(a) is a deterministic JSON Typedef validation, not a solver claim; (c) inventories, kinds, opcodes, enumerators and test vectors are compared as plain data')
        ck.assume('(b) shapes as in C01 with a smaller cap; the IR expresses else-branches as else-if with the complementary enumerators: equivalence is decided per shape by implication (z3), not by comparing syntax')
        if nfallback:
            ck.assume('%d containers the encoder does not cover (compressed arrays, UpdateMask, AddonArray members) are compared by their declared member sequence only (names, types, upcasts, array sizes, constants in textual order), e.g. %s' % (len(nfallback), '; '.join(nfallback[:3])))
        ck.assume('comments, display names, file positions and the prepared_objects/sizes helper fields of the IR are outside the comparison (sizes: see C09)')
        return ck.finish({'programs': max(nobj, 1), 'disagreements_checked': nshapes, 'objects_compared': nobj, 'shapes_compared': nshapes, 'schema_errors': len(errs),
                          'rule': 'per container and shape: bytes and validity predicate of the IR-derived encoder == wowm-derived encoder (z3); object sets per version view compared both ways'}, fail_on_inconclusive=False)
    finally:
        gen.cleanup()


def replay(path):
    print(open(path).read()[:2000])
    print('VIOLATION property=%s replay=%s' % (PROP, path))
    return 1
