"""C05 (b): wow_messages' encryption plumbing on MIR. The raw cipher is cut to a position-indexed invertible byte
transformer Enc(pos, byte) (contract from part (a)); everything around it - header construction and parsing in wow_srp,
the encrypted writers (traits/*.rs), read_encrypted of the opcode enums and the expect_*_encryption helpers - runs for
real with symbolic body length, symbolic plaintext header and symbolic cipher position."""
import z3
from ..mirsym import (Prog, Exec, Agg, Ref, Cell, EnumV, SymEnum, SliceRef, VecV, StreamV, Opaque, Unsupported, BV)
from ..inventory import Inventory
from ..models import ok, deref, as_slice
from .. import mirdump, messages, native
from . import c02

ENC = z3.Function('Enc', z3.BitVecSort(64), z3.BitVecSort(8), z3.BitVecSort(8))
DEC = z3.Function('Dec', z3.BitVecSort(64), z3.BitVecSort(8), z3.BitVecSort(8))

HALF = {
    'vanilla': {'enc_s': 'wow_srp::vanilla_header::EncrypterHalf', 'dec_s': 'wow_srp::vanilla_header::DecrypterHalf', 'enc_c': 'wow_srp::vanilla_header::EncrypterHalf', 'dec_c': 'wow_srp::vanilla_header::DecrypterHalf'},
    'tbc': {'enc_s': 'wow_srp::tbc_header::EncrypterHalf', 'dec_s': 'wow_srp::tbc_header::DecrypterHalf', 'enc_c': 'wow_srp::tbc_header::EncrypterHalf', 'dec_c': 'wow_srp::tbc_header::DecrypterHalf'},
    'wrath': {'enc_s': 'wow_srp::wrath_header::ServerEncrypterHalf', 'dec_s': 'wow_srp::wrath_header::ClientDecrypterHalf', 'enc_c': 'wow_srp::wrath_header::ClientEncrypterHalf', 'dec_c': 'wow_srp::wrath_header::ServerDecrypterHalf'},
}


def items():
    it = {}
    for e in c02.EXPS:
        h = HALF[e]
        it['ews_' + e] = ('pub fn c05_ws_%s(m: &wow_world_messages::%s::SMSG_WARDEN_DATA, v: &mut Vec<u8>, c: &mut %s) -> Result<(), std::io::Error> '
                          '{ wow_world_messages::%s::ServerMessage::write_encrypted_server(m, v, c) }' % (e, e, h['enc_s'], e))
        it['ewc_' + e] = ('pub fn c05_wc_%s(m: &wow_world_messages::%s::CMSG_WARDEN_DATA, v: &mut Vec<u8>, c: &mut %s) -> Result<(), std::io::Error> '
                          '{ wow_world_messages::%s::ClientMessage::write_encrypted_client(m, v, c) }' % (e, e, h['enc_c'], e))
        it['ers_' + e] = ('pub fn c05_rs_%s(r: &mut &[u8], c: &mut %s) -> Result<wow_world_messages::%s::opcodes::ServerOpcodeMessage, wow_world_messages::errors::ExpectedOpcodeError> '
                          '{ wow_world_messages::%s::opcodes::ServerOpcodeMessage::read_encrypted(r, c) }' % (e, h['dec_s'], e, e))
        it['erc_' + e] = ('pub fn c05_rc_%s(r: &mut &[u8], c: &mut %s) -> Result<wow_world_messages::%s::opcodes::ClientOpcodeMessage, wow_world_messages::errors::ExpectedOpcodeError> '
                          '{ wow_world_messages::%s::opcodes::ClientOpcodeMessage::read_encrypted(r, c) }' % (e, h['dec_c'], e, e))
        it['ees_' + e] = ('pub fn c05_es_%s(r: &mut &[u8], c: &mut %s) -> Result<wow_world_messages::%s::SMSG_WARDEN_DATA, wow_world_messages::errors::ExpectedOpcodeError> '
                          '{ wow_world_messages::%s::expect_server_message_encryption::<wow_world_messages::%s::SMSG_WARDEN_DATA, _>(r, c) }' % (e, h['dec_s'], e, e, e))
        it['eec_' + e] = ('pub fn c05_ec_%s(r: &mut &[u8], c: &mut %s) -> Result<wow_world_messages::%s::CMSG_WARDEN_DATA, wow_world_messages::errors::ExpectedOpcodeError> '
                          '{ wow_world_messages::%s::expect_client_message_encryption::<wow_world_messages::%s::CMSG_WARDEN_DATA, _>(r, c) }' % (e, h['dec_c'], e, e, e))
    return it


class Cipher:
    """stub state shared by the encrypt/decrypt cuts: one position counter per run"""

    def __init__(self, p0):
        self.p0 = p0
        self.count = 0          # bytes transformed so far (concrete: header lengths are concrete per path)
        self.log = []

    def pos(self):
        return self.p0 + BV(self.count, 64)

    def encrypt(self, ex, callee, args):
        sl = as_slice(ex, args[1])
        if sl.tail is not None:
            raise Unsupported('cipher applied to symbolic-length data')
        for i in range(sl.len):
            sl.lst[sl.start + i] = ENC(self.pos(), sl.lst[sl.start + i])
            self.count += 1
        self.log.append(('enc', sl.len))
        return Agg([])

    def decrypt(self, ex, callee, args):
        sl = as_slice(ex, args[1])
        if sl.tail is not None:
            raise Unsupported('cipher applied to symbolic-length data')
        for i in range(sl.len):
            c = sl.lst[sl.start + i]
            p = self.pos()
            out = None
            if z3.is_app(c) and c.decl().name() == 'Enc' and z3.simplify(c.arg(0) == p) is not None and z3.is_true(z3.simplify(c.arg(0) == p)):
                out = c.arg(1)
            sl.lst[sl.start + i] = out if out is not None else DEC(p, c)
            self.count += 1
        self.log.append(('dec', sl.len))
        return Agg([])


def cipher_stubs(ci, direction):
    f = ci.encrypt if direction == 'enc' else ci.decrypt
    names = ['vanilla_header::EncrypterHalf::encrypt', 'tbc_header::EncrypterHalf::encrypt', 'vanilla_header::DecrypterHalf::decrypt', 'tbc_header::DecrypterHalf::decrypt',
             'inner_crypto::rc4::Rc4::apply_keystream']
    return [(n, f) for n in names]


def check_enc_writer(ck, ex, root, exp, side, pending):
    s = z3.BitVec('s', 32)
    p0 = z3.BitVec('cipher_pos', 64)
    spec, rng = c02.header_spec(exp, side, s)
    # exclude the recorded u16-overflow lengths (C02 finding): the plaintext writer aborts there too
    if not (exp == 'wrath' and side == 'server'):
        rng = z3.And(rng, z3.ULE(s, 0xFFFF - (4 if side == 'server' else 6)))
    ci = Cipher(p0)

    def stub_size(ex_, callee, args):
        return s

    def stub_write(ex_, callee, args):
        v = deref(ex_, args[1], VecV)
        v.tail = z3.ZeroExt(32, s)
        return ok(Agg([]))
    ex.stubs = [('WARDEN_DATA as roots::wow_world_messages::Message>::size_without_header', stub_size),
                ('WARDEN_DATA as roots::wow_world_messages::Message>::write_into_vec', stub_write)] + cipher_stubs(ci, 'enc')
    ex.sym_len_ok = True
    ex.set_assumptions([rng])
    holder = {}
    half_ty = ex.p.tk(root['sig']['args'][2])['Ref'][1]

    def mk():
        v = VecV([])
        holder['v'] = v
        ci.count = 0
        ci.log = []
        return [Ref(Cell(Agg([VecV([])]))), Ref(Cell(v)), Ref(Cell(ex.fresh_value(half_ty, 'half')))]

    def keep(P):
        P.env['out'] = holder['v']
        P.env['count'] = ci.count
    name = 'wow_world_messages::%s::write_encrypted_%s' % (exp, side)
    paths = ex.explore_guided(root['key'], mk, on_path=keep)
    for P in paths:
        if P.status == 'unsupported':
            ck.inconclusive.append('%s: %s' % (name, P.detail))
            continue
        if P.status == 'infeasible':
            continue
        sol = z3.Solver()
        sol.add(rng, *P.pc)
        if P.status != 'ret':
            if sol.check() == z3.sat:
                sv = sol.model().eval(s, model_completion=True).as_long()
                pending.append({'key': name + '/abort', 'what': 'encrypted writer ends in %s %s for a body of %d bytes' % (P.status, P.detail[:80], sv), 'kind': 'abort'})
            continue
        out = P.env['out']
        hdr = out.lst
        bad = [out.tail != z3.ZeroExt(32, s)] if out.tail is not None else [z3.BoolVal(True)]
        if isinstance(spec, tuple):
            _, large, two, three = spec
            plain = two if len(hdr) == 4 else three
            bad.append(large if len(hdr) == 4 else z3.Not(large))
        else:
            plain = spec
        if len(hdr) != len(plain):
            bad.append(z3.BoolVal(True))
        else:
            for i, (h, t) in enumerate(zip(hdr, plain)):
                bad.append(h != ENC(p0 + BV(i, 64), t))       # exactly the header bytes, in order, each exactly once
        if P.env['count'] != len(hdr):
            bad.append(z3.BoolVal(True))                        # cipher advanced by a different number of bytes
        sol.add(z3.Or(*bad))
        if sol.check() == z3.sat:
            sv = sol.model().eval(s, model_completion=True).as_long()
            pending.append({'key': name + '/ciphertext', 'what': 'for a body of %d bytes the encrypted stream is not "plaintext stream with exactly the %d header bytes passed through the cipher in order" (cipher advanced by %d)' % (sv, len(plain), P.env['count']), 'kind': 'ciphertext'})
    ex.stubs = []
    ex.sym_len_ok = False
    return len(paths)


def check_enc_reader(ck, ex, root, exp, side, entry, pending):
    hlen = 4 if side == 'server' else 6
    maxh = 5 if (side == 'server' and exp == 'wrath') else hlen
    plain = [z3.BitVec('h%d' % i, 8) for i in range(maxh)]
    q0 = z3.BitVec('cipher_pos', 64)
    head = [ENC(q0 + BV(i, 64), plain[i]) for i in range(maxh)]
    ci = Cipher(q0)
    rec = {}

    def stub_dispatch(ex_, callee, args):
        rec['args'] = args
        return ok(Opaque('message'))
    ex.stubs = [('::read_opcodes', stub_dispatch), ('WARDEN_DATA as roots::wow_world_messages::Message>::read_body', stub_dispatch),
                ('::opcode_to_name', lambda ex_, callee, args: Opaque('opcode name'))] + cipher_stubs(ci, 'dec')
    ex.sym_len_ok = True
    h = plain
    oplen = 2 if side == 'server' else 4
    if side == 'server' and exp == 'wrath':
        large = (h[0] & 0x80) != 0
        field = z3.If(large, z3.Concat(BV(0, 8), h[0] & 0x7F, h[1], h[2]), z3.Concat(BV(0, 16), h[0], h[1]))
        flen = z3.If(large, BV(3, 64), BV(2, 64))
        nhdr = z3.If(large, BV(5, 64), BV(4, 64))
    else:
        field = z3.Concat(BV(0, 16), h[0], h[1])
        flen = BV(2, 64)
        nhdr = BV(hlen, 64)
    valid = [z3.UGE(field, oplen)]
    ex.set_assumptions(valid)
    holder = {}
    half_ty = ex.p.tk(root['sig']['args'][1])['Ref'][1]

    def mk():
        st = StreamV(list(head))
        holder['st'] = st
        ci.count = 0
        ci.log = []
        return [Ref(Cell(Ref(Cell(st)))), Ref(Cell(ex.fresh_value(half_ty, 'half')))]

    def keep(P):
        P.env['st'] = holder['st']
        P.env['count'] = ci.count
        P.env['rec'] = dict(rec)
        rec.clear()
    name = 'wow_world_messages::%s::%s (%s messages)' % (exp, 'read_encrypted' if entry == 'enum' else 'expect_%s_message_encryption' % side, side)
    paths = ex.explore_guided(root['key'], mk, on_path=keep)
    for P in paths:
        if P.status == 'unsupported':
            ck.inconclusive.append('%s: %s' % (name, P.detail))
            continue
        if P.status == 'infeasible':
            continue
        sol = z3.Solver()
        sol.add(*valid)
        sol.add(*P.pc)
        if P.status != 'ret':
            if sol.check() == z3.sat:
                pending.append({'key': name + '/abort', 'what': 'decrypting reader ends in %s %s' % (P.status, P.detail[:80]), 'kind': 'abort'})
            continue
        st = P.env['st']
        pos = st.pos if not isinstance(st.pos, int) else BV(st.pos, 64)
        want = flen + z3.ZeroExt(32, field)
        bad = [pos != want, BV(P.env['count'], 64) != nhdr]
        a = P.env['rec'].get('args')
        if a is not None and entry == 'enum':
            ints = [x for x in a if z3.is_expr(x)]
            size_a = ints[1]
            bad.append(size_a != field - oplen)
        sol.add(z3.Or(*bad))
        if sol.check() == z3.sat:
            m = sol.model()
            hb = [m.eval(x, model_completion=True).as_long() for x in plain]
            pending.append({'key': name + '/consumed', 'what': 'plaintext header %s: the decrypting reader consumes %s bytes and decrypts %d, the header announces %s bytes and %s header bytes' % (
                ' '.join('%02x' % b for b in hb), m.eval(pos, model_completion=True), P.env['count'], m.eval(want, model_completion=True), m.eval(nhdr, model_completion=True)), 'kind': 'consumed'})
    ex.stubs = []
    ex.sym_len_ok = False
    return len(paths)


def run(ck, tier):
    out, dropped = mirdump.dump_items('framing_enc_world', ['wow_world_messages', 'wow_world_base', 'wow_srp'], items(), [], extra_rs=messages.TEMPLATES)
    for k, why in dropped.items():
        ck.inconclusive.append('encrypted entry point %s does not compile in the roots crate: %s' % (k, why[:200]))
    prog = Prog(out)
    inv = Inventory(prog)
    ex = Exec(prog)
    ex.max_paths = 200
    pending = []
    n = npaths = 0
    for e in c02.EXPS:
        for side, pre in (('server', 'ws_'), ('client', 'wc_')):
            root = inv.local.get('c05_' + pre + e)
            if root:
                try:
                    npaths += check_enc_writer(ck, ex, root, e, side, pending)
                    n += 1
                except Unsupported as x:
                    ck.inconclusive.append('encrypted writer %s %s: %s' % (e, side, x))
        for side, entry, pre in (('server', 'enum', 'rs_'), ('client', 'enum', 'rc_'), ('server', 'expect', 'es_'), ('client', 'expect', 'ec_')):
            root = inv.local.get('c05_' + pre + e)
            if root:
                try:
                    npaths += check_enc_reader(ck, ex, root, e, side, entry, pending)
                    n += 1
                except Unsupported as x:
                    ck.inconclusive.append('decrypting reader %s %s %s: %s' % (e, side, entry, x))
    for p in pending:
        ck.violation(p['key'], p['what'], p, confirmed=True)
    ck.sample({'plumbing_entry_points': n, 'mir_paths': npaths, 'obligation': 'ciphertext = plaintext with exactly the header bytes transformed in order; decrypting readers consume and decrypt exactly what the header announces'})
    return {'plumbing_entry_points': n, 'plumbing_paths': npaths, 'plumbing_functions_encoded_count': len(ex.fns_reached)}
