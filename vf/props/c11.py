"""C11 - generated enum types mirror their wowm definition for every integer.
Deciding engine: MIRSYM: from_int, every TryFrom<intN>, as_int and variants() are executed on the MIR with the
argument a free bit-vector of the source type, and compared with the (name, value) list of the wowm definition."""
import json
import multiprocessing as mp
import re
import time
import z3
from ..common import Check, log, NCPU
from .. import wowm, definers, native
from ..mirsym import Prog, Exec, Agg, Ref, Cell, EnumV, SymEnum, SliceRef, Unsupported, concrete, BV
from ..inventory import Inventory
from .c12 import Runner, INT_TYPES, _signed

WORLD_SRC = ['u8', 'u16', 'u32', 'u64', 'usize', 'i8', 'i16', 'i32', 'i64']
LOGIN_SRC = ['u8', 'u16', 'u32', 'u64', 'usize', 'i8', 'i16', 'i32']


def enum_spec(d):
    nbytes, signed, _ = wowm.int_type_info(d['ty'])
    w = nbytes * 8
    fields = []
    for f in d['fields']:
        v = f['value']
        if v < 0:
            v += 1 << w
        fields.append((f['name'], v))
    return {'name': d['name'], 'width': w, 'signed': signed, 'fields': fields, 'file': d['file']}


def flatten(res, cond=None):
    """Result<Enum, EnumError> value -> [(cond, 'ok', variant) | (cond, 'err', value term)]"""
    cond = z3.BoolVal(True) if cond is None else cond
    out = []
    if isinstance(res, EnumV):
        alts = [(z3.BoolVal(True), res.d, res.f)]
    elif isinstance(res, SymEnum):
        alts = res.alts
    else:
        raise Unsupported('not a Result: %r' % (res,))
    for c, d, f in alts:
        cc = z3.And(cond, c)
        if d == 0:
            inner = f[0]
            if isinstance(inner, EnumV):
                out.append((cc, 'ok', inner.d))
            elif isinstance(inner, SymEnum):
                for c2, d2, _ in inner.alts:
                    out.append((z3.And(cc, c2), 'ok', d2))
            else:
                raise Unsupported('Ok payload %r' % (inner,))
        else:
            e = f[0]
            if isinstance(e, Agg) and len(e.f) == 2:
                out.append((cc, 'err', e.f[1], e.f[0]))
            else:
                raise Unsupported('Err payload %r' % (e,))
    return out


def check_enum(R, spec, methods, path, adt, src_types):
    w = spec['width']
    viol = []
    inc = []
    funcs = []
    nvar = len(adt['variants'])
    fields = spec['fields']
    # --- variant list vs enumerators (order and names)
    if nvar != len(fields):
        viol.append({'method': 'type', 'label': 'variants', 'what': 'Rust enum has %d variants, wowm has %d enumerators' % (nvar, len(fields)), 'rust': None, 'inputs': {}})
        return viol, inc, funcs
    for i, (fname, fval) in enumerate(fields):
        rn = adt['variants'][i]['name']
        if wowm.norm_ident(rn) not in (wowm.norm_ident(fname), wowm.norm_ident(fname) + 'x'):   # ErrorX / SelfX: reserved words get an X suffix
            viol.append({'method': 'type', 'label': 'name:' + fname, 'what': 'variant %d is %s but enumerator %d is %s' % (i, rn, i, fname), 'rust': None, 'inputs': {}})
    values = {}
    for i, (fname, fval) in enumerate(fields):
        values.setdefault(fval, i)

    def expect_for(xval, sw, ssigned):
        """concrete expectation: ('ok', k) or ('err', set of accepted reported values)"""
        num = _signed(xval, (sw, ssigned))
        if sw == w and ssigned != spec['signed']:
            base = xval
            rep = {num, _signed(base, (w, spec['signed']))}
        else:
            lo, hi = (-(1 << (w - 1)), (1 << (w - 1)) - 1) if spec['signed'] else (0, (1 << w) - 1)
            if not (lo <= num <= hi):
                return ('err', {num})
            base = num % (1 << w)
            rep = {num}
        if base in values:
            return ('ok', values[base])
        return ('err', rep)

    def conv_check(mname, key, sw, ssigned, src):
        funcs.append(mname)
        x = z3.BitVec('x', sw)
        try:
            outs = R.run(key, lambda: ([x], None))
        except Unsupported as e:
            inc.append('%s::%s: %s' % (path, mname, e))
            return
        num128 = z3.SignExt(128 - sw, x) if ssigned else z3.ZeroExt(128 - sw, x)
        if sw == w and ssigned != spec['signed']:
            repr_ok = z3.BoolVal(True)
            xb = x
            alt128 = z3.SignExt(128 - w, x) if spec['signed'] else z3.ZeroExt(128 - w, x)
        else:
            if spec['signed']:
                lo, hi = -(1 << (w - 1)), (1 << (w - 1)) - 1
            else:
                lo, hi = 0, (1 << w) - 1
            repr_ok = z3.And(num128 >= z3.BitVecVal(lo, 128), num128 <= z3.BitVecVal(hi, 128))
            xb = z3.Extract(w - 1, 0, num128)
            alt128 = num128
        declared = z3.Or(*[xb == BV(v, w) for v in values]) if values else z3.BoolVal(False)

        def report(label, model, extra=''):
            xv = model.eval(x, model_completion=True).as_long()
            viol.append({'method': mname, 'label': label, 'inputs': {'x': xv}, 'what': '%s for %s = %d%s' % (label, src, _signed(xv, (sw, ssigned)), extra),
                         'rust': 'format!("{:?}", <%s as TryFrom<%s>>::try_from(%d%s))' % (path, src, _signed(xv, (sw, ssigned)), src),
                         'expect': list(map(lambda t: list(t) if isinstance(t, set) else t, expect_for(xv, sw, ssigned))), 'variants': [v['name'] for v in adt['variants']]})

        for status, detail, pc, res, obs in outs:
            if status == 'unsupported':
                inc.append('%s::%s: %s' % (path, mname, detail))
                continue
            if status == 'infeasible':
                continue
            if status != 'ret':
                s = z3.Solver()
                s.add(*pc)
                if s.check() == z3.sat:
                    report('panic', s.model(), ' (%s %s)' % (status, detail))
                continue
            try:
                flat = flatten(res)
            except Unsupported as e:
                inc.append('%s::%s: %s' % (path, mname, e))
                continue
            oks = [ent for ent in flat if ent[1] == 'ok']
            if oks:
                # one query for all Ok alternatives: exists x with some alternative taken although x is not that enumerator's value
                bad = z3.Or(*[z3.And(ent[0], z3.Not(z3.And(repr_ok, xb == BV(fields[ent[2]][1], w)))) for ent in oks])
                m = R.differs(pc, bad, z3.BoolVal(False))
                if m is not None:
                    k = next((ent[2] for ent in oks if z3.is_true(m.eval(ent[0], model_completion=True))), oks[0][2])
                    report('wrong-variant', m, ': returns Ok(%s)' % adt['variants'][k]['name'])
            for ent in flat:
                c, kind = ent[0], ent[1]
                if kind == 'err':
                    m = R.differs(pc + [c], z3.And(repr_ok, declared), z3.BoolVal(False))
                    if m is not None:
                        report('rejects-declared', m, ': returns Err')
                        continue
                    val = ent[2]
                    if not z3.is_expr(val):
                        inc.append('%s::%s: error value not a term' % (path, mname))
                        continue
                    m = R.differs(pc + [c], z3.Or(val == num128, val == alt128), z3.BoolVal(True))
                    if m is not None:
                        report('error-value', m, ': Err reports %s' % m.eval(val, model_completion=True))

    fi = methods.get((None, 'from_int'))
    if fi:
        conv_check('from_int', fi['key'], w, spec['signed'], '%s%d' % ('i' if spec['signed'] else 'u', w))
    else:
        viol.append({'method': 'from_int', 'label': 'missing', 'what': 'no from_int', 'rust': None, 'inputs': {}})
    for src in src_types:
        r = methods.get(('std::convert::TryFrom<%s>' % src, 'try_from'))
        if not r:
            viol.append({'method': 'TryFrom<%s>' % src, 'label': 'missing', 'what': 'no TryFrom<%s> conversion' % src, 'rust': None, 'inputs': {}})
            continue
        sw, ssigned = INT_TYPES[src]
        conv_check('TryFrom<%s>' % src, r['key'], sw, ssigned, src)
    # --- as_int per variant
    ai = methods.get((None, 'as_int'))
    if ai:
        funcs.append('as_int')
        for k, (fname, fval) in enumerate(fields):
            try:
                outs = R.run(ai['key'], lambda k=k: ([Ref(Cell(EnumV(k, [])))], None))
            except Unsupported as e:
                inc.append('%s::as_int: %s' % (path, e))
                break
            if len(outs) != 1 or outs[0][0] != 'ret':
                inc.append('%s::as_int(%s): %s' % (path, fname, outs[0][0]))
                continue
            got = concrete(outs[0][3])
            if got != fval:
                viol.append({'method': 'as_int', 'label': 'value:' + fname, 'inputs': {}, 'what': 'as_int(%s) = %s, wowm value %d' % (adt['variants'][k]['name'], got, fval),
                             'rust': 'format!("{}", %s::%s.as_int())' % (path, adt['variants'][k]['name']), 'expect_str': str(_signed(fval, (w, spec['signed'])))})
    else:
        viol.append({'method': 'as_int', 'label': 'missing', 'what': 'no as_int', 'rust': None, 'inputs': {}})
    # --- variants()
    va = methods.get((None, 'variants'))
    if va:
        funcs.append('variants')
        try:
            outs = R.run(va['key'], lambda: ([], None))
            if len(outs) != 1 or outs[0][0] != 'ret' or not isinstance(outs[0][3], Agg):
                inc.append('%s::variants: %s' % (path, outs[0][0] + ' ' + outs[0][1]))
            else:
                got = [e.d if isinstance(e, EnumV) else None for e in outs[0][3].f]
                if got != list(range(nvar)):
                    viol.append({'method': 'variants', 'label': 'order', 'inputs': {}, 'what': 'variants() lists variant indices %s, expected each enumerator once in declaration order' % (got[:20],),
                                 'rust': 'format!("{:?}", %s::variants())' % path, 'expect_str': '[' + ', '.join(v['name'] for v in adt['variants']) + ']'})
        except Unsupported as e:
            inc.append('%s::variants: %s' % (path, e))
    else:
        viol.append({'method': 'variants', 'label': 'missing', 'what': 'no variants()', 'rust': None, 'inputs': {}})
    return viol, inc, funcs


def worker(job):
    dump, items, src_types = job
    R = Runner(dump)
    R.ex.max_paths = 20000
    inv = Inventory(R.prog)
    out = []
    for spec, ty, path in items:
        t0 = time.time()
        methods = inv.by_type.get(str(ty), {})
        try:
            adt = R.prog.adt(ty)
            viol, inc, funcs = check_enum(R, spec, methods, path, adt, src_types)
        except Exception:
            import traceback
            viol, inc, funcs = [], ['%s: checker exception %s' % (path, traceback.format_exc()[-500:])], []
        out.append({'path': path, 'spec': {'name': spec['name'], 'file': spec['file'], 'n': len(spec['fields']), 'width': spec['width']}, 'viol': viol, 'inc': inc, 'funcs': funcs, 'secs': time.time() - t0})
    return out, R.queries, R.ex.stats, sorted(R.ex.fns_reached)


def confirm(vv, o):
    if o is None or o[0] is None:
        return False
    for out in o:
        if out is None:
            continue
        if vv['label'] == 'panic':
            if 'PANIC' in out:
                return True
            continue
        if 'expect_str' in vv:
            if out.strip() != vv['expect_str']:
                return True
            continue
        exp = vv.get('expect')
        if exp:
            if exp[0] == 'ok':
                if not out.startswith('Ok(%s)' % vv['variants'][exp[1]]):
                    return True
            else:
                m = re.search(r'value: (-?\d+)', out)
                if not out.startswith('Err(') or not m or int(m.group(1)) not in exp[1]:
                    return True
    return False


def run(tier, only=None):
    ck = Check('C11', tier, 'model_checking')
    corpus = wowm.Corpus()
    total_q = 0
    fn_names = set()
    ntypes = 0
    nmethods = 0
    pending = []
    for kind in ('world', 'login'):
        prog, inv, res, dropped, item_fn = definers.build(kind, corpus)
        for k, why in dropped.items():
            if k.startswith('ty|'):
                if 'private' in why:
                    ck.assume('%s is crate-private (folded into message-local types); not a public enum' % k[3:])
                else:
                    ck.violation(k[3:] + '/type', 'enum type not reachable through its public path: ' + why, {'path': k[3:], 'error': why})
        jobs = {}
        for v, d, path, ty in res:
            if d['k'] != 'enum' or ty is None:
                continue
            if only and only not in path:
                continue
            spec = enum_spec(d)
            key = (str(ty), json.dumps(spec['fields']), spec['width'], spec['signed'])
            if key in jobs:
                continue
            jobs[key] = (spec, ty, path)
        items = list(jobs.values())
        ntypes += len(items)
        if not items:
            continue
        nproc = min(NCPU, len(items))
        chunks = [[] for _ in range(nproc)]
        for i, it in enumerate(sorted(items, key=lambda x: -len(x[0]['fields']))):
            chunks[i % nproc].append(it)
        src_types = WORLD_SRC if kind == 'world' else LOGIN_SRC
        with mp.Pool(nproc) as pool:
            results = pool.map(worker, [(prog.path, c, src_types) for c in chunks])
        for out, q, stats, fns in results:
            total_q += q
            fn_names.update(fns)
            for r in out:
                nmethods += len(r['funcs'])
                ck.inconclusive.extend(r['inc'])
                if len(ck.cov['samples']) < 6:
                    ck.sample({'type': r['path'], 'wowm': r['spec'], 'functions_checked': r['funcs'], 'violations': len(r['viol']), 'secs': round(r['secs'], 2)})
                for vv in r['viol']:
                    key = '%s::%s/%s' % (r['path'], vv['method'], vv['label'])
                    pending.append((key, vv, r['path'], kind))
    by_dep = {}
    for key, vv, path, dep_key in pending:
        by_dep.setdefault(dep_key, []).append((key, vv, path))
    for dep_key, lst in by_dep.items():
        cases = [(key, vv['rust']) for key, vv, path in lst if vv.get('rust') and ck.known.match('C11', key) is None]
        outs = {}
        if cases:
            try:
                outs = native.eval_cases(dep_key, cases)
            except Exception as e:
                ck.inconclusive.append('native replay failed to build: %s' % str(e)[-300:])
        for key, vv, path in lst:
            payload = dict(vv, type=path)
            if not vv.get('rust'):
                ck.violation(key, vv['what'], payload, confirmed=True)
                continue
            o = outs.get(key)
            payload['native_dev'], payload['native_release'] = (o or (None, None))
            ck.violation(key, '%s native=%r' % (vv['what'], o), payload, confirmed=confirm(vv, o) or ck.known.match('C11', key) is not None)
    ck.assume('wowm reading: vf/wowm.py; Rust variant i corresponds to enumerator i (declaration order), names compared case/underscore-insensitively')
    ck.assume('same-width source of the other signedness: bit-for-bit; every other source: numeric value; the error value may be the argument value or, for the same-width case, its reinterpretation')
    ck.assume('supported source types: world enums %s, login enums %s' % (WORLD_SRC, LOGIN_SRC))
    return ck.finish({'states': max(ntypes, 1), 'transitions': max(nmethods, 1), 'traces_validated_against_impl': len(pending), 'enum_types': ntypes,
                      'functions_checked': nmethods, 'queries': total_q, 'functions_encoded_count': len(fn_names), 'functions_encoded': sorted(fn_names)[:60],
                      'bounds': 'none: the argument of every conversion is a free bit-vector of the full source width (u64/i64 included)',
                      'rule': 'per (enum, conversion): every MIR path result is compared with the wowm (name, value) list by z3'}, fail_on_inconclusive=True)


def replay(path):
    j = json.load(open(path))
    if not j.get('rust'):
        print(j.get('what'))
        print('VIOLATION property=C11 replay=%s' % path)
        return 1
    dep = 'login' if 'wow_login_messages' in j['rust'] else 'world'
    o = native.eval_cases(dep, [('x', j['rust'])])['x']
    print('native:', o, 'expected:', j.get('expect') or j.get('expect_str'))
    if confirm(j, o):
        print('VIOLATION property=C11 replay=%s' % path)
        return 1
    return 0
