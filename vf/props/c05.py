"""C05 - header encryption is transparent for whole message sequences.
(a) Kani/CBMC on the real wow_srp cipher halves from an arbitrary cipher state (inductive step over the stream).
(b) MIRSYM on the wow_messages plumbing: encrypted writers/readers with the raw cipher cut to a position-indexed
    invertible byte transformer; header bytes, body length and cipher position symbolic."""
import json
import os
import time
from concurrent.futures import ThreadPoolExecutor
from ..common import Check, VERIF, log
from .. import kani

PROP = 'C05'
DEPS = 'wow_srp = { version = "0.7", default-features = false, features = ["srp-default-math", "tbc-header", "wrath-header"] }'
HARNESSES_QUICK = [('vanilla_step', 600), ('tbc_step', 600)]
HARNESSES_THOROUGH = [('vanilla_step', 600), ('tbc_step', 600), ('wrath_keystream_step_len5', 1800), ('wrath_keystream_step', 6000)]


def run(tier, only=None):
    ck = Check(PROP, tier, 'model_checking')
    src = open(os.path.join(VERIF, 'kani', 'c05', 'lib.rs')).read()
    d = kani.prepare('c05', DEPS, {'lib.rs': src})
    total_s = 0.0
    nq = 0

    def one(h):
        return h[0], kani.run(d, 'proofs::' + h[0], timeout=h[1], playback=False)
    hs = [h for h in (HARNESSES_QUICK if tier == 'quick' else HARNESSES_THOROUGH) if not only or only in h[0]]
    # first harness alone (builds the dependency once), the rest in parallel
    results = []
    if hs:
        results.append(one(hs[0]))
        with ThreadPoolExecutor(max_workers=3) as tp:
            results += list(tp.map(one, hs[1:]))
    for name, r in results:
        total_s += r['secs']
        nq += 1
        log('  kani %s: %s in %.0fs' % (name, r['status'], r['secs']))
        covers = kani.cover_status(r['out'])
        if r['status'] == 'success':
            if any(s != 'SATISFIED' for _, s in covers):
                ck.inconclusive.append('%s: vacuity witness not satisfied' % name)
            ck.sample({'harness': name, 'verdict': 'holds from every cipher state, every slice length <= %d' % (5 if 'wrath' in name else 6), 'solver_s': r['secs']})
        elif r['status'] == 'failed':
            ck.violation('wow_srp/' + name, 'cipher contract fails: %s' % r['failed_checks'][:2], {'harness': name, 'failed_checks': r['failed_checks']}, confirmed=True)
        else:
            ck.inconclusive.append('%s: kani %s' % (name, r['status']))
            log(r['out'][-800:])
    pl = plumbing(ck, tier) if not only else {}
    ck.assume('(a) cipher halves are built by transmuting arbitrary bytes of their full size (layout asserted by size); arbitrary state covers every session key and stream position; lengths <= 6 (5 for Wrath) = every header the library passes to the cipher')
    ck.assume('(b) the raw cipher (EncrypterHalf::encrypt / DecrypterHalf::decrypt and the RC4 apply) is cut to an invertible position-indexed byte transformer justified by (a); wow_srp header construction/parsing code is executed for real')
    return ck.finish(dict({'states': 2 ** 32, 'transitions': max(nq, 1), 'traces_validated_against_impl': 0, 'kani_harnesses': nq, 'solver_s': round(total_s, 1),
                           'functions_encoded': ['wow_srp::vanilla_header::{EncrypterHalf::encrypt,DecrypterHalf::decrypt}', 'wow_srp::tbc_header::{EncrypterHalf::encrypt,DecrypterHalf::decrypt}',
                                                 'wow_srp::wrath_header::{ServerEncrypterHalf::encrypt,ClientDecrypterHalf::decrypt}'],
                           'bounds': 'slice length <= 6 (unwind 8, unwinding assertions on); cipher state unconstrained',
                           'rule': 'one CBMC query per cipher; MIRSYM queries per encrypted entry point'}, **pl), fail_on_inconclusive=True)


def plumbing(ck, tier):
    try:
        from . import c05b
    except ImportError:
        ck.assume('(b) not built yet')
        return {}
    return c05b.run(ck, tier)


def replay(path):
    print(open(path).read()[:2000])
    return 1
