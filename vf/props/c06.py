"""C06 - blocking, tokio and async-std variants agree under every stream chunking.
MIRSYM executes the coroutine state machines rustc generates for the tokio_/astd_ readers (login: three separately
generated copies per message; world: header/body readers) against a scripted transport (Pending / k-byte deliveries)
and compares the value returned when the future completes with the blocking reader's value on the same symbolic
bytes, path by path, by z3."""
import itertools
import json
import multiprocessing as mp
import os
import re
import time
import traceback
import z3
from ..common import Check, log, NCPU, seed
from .. import wowm, messages, encode, mirdump
from ..mirsym import (Prog, Exec, Agg, Ref, Cell, EnumV, SymEnum, SliceRef, VecV, StrV, Opaque, Unsupported, BV)
from ..inventory import Inventory

PROP = 'C06'
PRELUDE = '''
use std::pin::Pin; use std::task::{Context, Poll}; use std::future::Future;
pub struct Abs { pub pos: usize }
impl tokio::io::AsyncRead for Abs { fn poll_read(self: Pin<&mut Self>, _cx: &mut Context<'_>, _buf: &mut tokio::io::ReadBuf<'_>) -> Poll<std::io::Result<()>> { Poll::Pending } }
impl async_std::io::Read for Abs { fn poll_read(self: Pin<&mut Self>, _cx: &mut Context<'_>, _buf: &mut [u8]) -> Poll<std::io::Result<usize>> { Poll::Pending } }
fn drive<F: Future>(fut: F, cx: &mut Context<'_>) -> F::Output { let mut fut = std::pin::pin!(fut); loop { if let Poll::Ready(v) = fut.as_mut().poll(cx) { return v; } } }
pub fn __templates(a: &mut Vec<u8>, b: &mut &[u8]) {}
'''


def login_items(corpus):
    items = {}
    targets = messages.login_targets(corpus)
    for i, (v, c, path) in enumerate(targets):
        side = 'client' if c['k'] == 'clogin' else 'server'
        eoe = 'wow_login_messages::errors::ExpectedOpcodeError'
        items['t|%d' % i] = 'pub fn c06_t_%d(rd: &mut Abs, cx: &mut Context<\'_>) -> Result<%s, %s> { drive(wow_login_messages::helper::tokio_expect_%s_message::<%s, _>(rd), cx) }' % (i, path, eoe, side, path)
        items['a|%d' % i] = 'pub fn c06_a_%d(rd: &mut Abs, cx: &mut Context<\'_>) -> Result<%s, %s> { drive(wow_login_messages::helper::astd_expect_%s_message::<%s, _>(rd), cx) }' % (i, path, eoe, side, path)
        items['s|%d' % i] = 'pub fn c06_s_%d(r: &mut &[u8]) -> Result<%s, %s> { wow_login_messages::helper::expect_%s_message::<%s, _>(r) }' % (i, path, eoe, side, path)
    return items, targets


def differ(a, b):
    """list of z3 Bools, each true when the two values differ; [True] on structural mismatch"""
    T = z3.BoolVal(True)
    if z3.is_expr(a) and z3.is_expr(b):
        if a.sort().eq(b.sort()):
            return [] if a.eq(b) else [a != b]
        return [T]
    if isinstance(a, Opaque) and isinstance(b, Opaque):
        return [] if (a.what == b.what and a.kw.get('kind') == b.kw.get('kind')) else [T]
    if isinstance(a, StrV) and isinstance(b, StrV):
        return differ(a.vec, b.vec)
    if isinstance(a, VecV) and isinstance(b, VecV):
        if len(a.lst) != len(b.lst):
            return [T]
        out = []
        for x, y in zip(a.lst, b.lst):
            out += differ(x, y)
        return out
    if isinstance(a, SliceRef) and isinstance(b, SliceRef):
        if a.len != b.len:
            return [T]
        out = []
        for x, y in zip(a.items(), b.items()):
            out += differ(x, y)
        return out
    if isinstance(a, Agg) and isinstance(b, Agg):
        if len(a.f) != len(b.f):
            return [T]
        out = []
        for x, y in zip(a.f, b.f):
            out += differ(x, y)
        return out
    if isinstance(a, (EnumV, SymEnum)) and isinstance(b, (EnumV, SymEnum)):
        aa = [(z3.BoolVal(True), a.d, a.f)] if isinstance(a, EnumV) else a.alts
        bb = [(z3.BoolVal(True), b.d, b.f)] if isinstance(b, EnumV) else b.alts
        out = []
        for ca, da, fa in aa:
            for cb, db, fb in bb:
                both = z3.And(ca, cb)
                if da != db:
                    out.append(both)
                else:
                    sub = []
                    if len(fa) != len(fb):
                        sub = [T]
                    else:
                        for x, y in zip(fa, fb):
                            sub += differ(x, y)
                    out += [z3.And(both, s) for s in sub]
        return out
    if isinstance(a, Ref) and isinstance(b, Ref):
        return []
    if a is None and b is None:
        return []
    return [T]


def schedules(tier):
    alpha = ['P', 1, 2, 'ALL']
    out = [[]]
    for n in range(1, (2 if tier == 'quick' else 3) + 1):
        out += [list(s) for s in itertools.product(alpha, repeat=n)]
    # single-byte delivery with a Pending before every byte
    # single-byte delivery with a Pending before every byte (short messages: the run length grows with the schedule)
    out.append(['P', 1] * 24)
    out.append([1] * 48)
    return out


def run_sync(ex, key, data, cons):
    ex.set_assumptions(cons)
    n = len(data)
    res = []
    for P in ex.explore_guided(key, lambda: [Ref(Cell(SliceRef(list(data), 0, n)))]):
        if P.status == 'unsupported':
            if 'path budget' in P.detail:
                continue      # bounded exploration of malformed inputs: the explored paths are compared
            raise Unsupported('sync: ' + P.detail)
        if P.status == 'infeasible':
            continue
        res.append((P.pc, P.status, P.result))
    return res


def run_async(ex, key, data, cons, sched):
    ex.set_assumptions(cons)
    res = []

    def mk():
        return [Ref(Cell(Agg([BV(0, 64)]))), Ref(Cell(Opaque('Context')))]
    env = {'data': list(data), 'pos': 0, 'sched': list(sched)}
    # every path needs a fresh copy of the transport script
    orig = ex.explore_guided

    class EnvDict(dict):
        pass
    paths = []
    s = ex.solver
    # explore_guided copies env per path (shallow): make the mutable parts fresh through mk()
    holder = {}

    def mk2():
        ex.path.env['data'] = list(data)
        ex.path.env['pos'] = 0
        ex.path.env['sched'] = list(sched)
        ex.path.env['polls'] = 0
        return mk()
    for P in ex.explore_guided(key, mk2, env={'x': 1}):
        if P.status == 'unsupported':
            if 'path budget' in P.detail:
                continue
            raise Unsupported('async: ' + P.detail)
        if P.status == 'infeasible':
            continue
        res.append((P.pc, P.status, P.result, P.env.get('polls', 0)))
    return res


def compare(ex, cons, sync_res, async_res):
    """returns None or a description of a disagreement (with model). Only overlapping (async path, blocking path)
    pairs are examined: for each async path the blocking paths that share an input with it are enumerated through
    models (the paths of one exploration are mutually exclusive), instead of testing all pairs."""
    sync_conj = [z3.And(*ps) if ps else z3.BoolVal(True) for ps, _, _ in sync_res]
    for pa, sta, ra, polls in async_res:
        base = z3.Solver()
        base.set('timeout', 20000)
        base.add(*cons)
        base.add(*pa)
        guard = 0
        while guard <= len(sync_res):
            guard += 1
            c = base.check()
            if c != z3.sat:
                if c == z3.unknown:
                    raise Unsupported('solver unknown in comparison')
                break
            m = base.model()
            hit = None
            for j, cj in enumerate(sync_conj):
                if z3.is_true(m.eval(cj, model_completion=True)):
                    hit = j
                    break
            if hit is None:
                break        # input outside the explored blocking paths (path budget): nothing to compare with
            ps, sts, rs = sync_res[hit]
            if sta != sts:
                return 'async path ends in %s, blocking path in %s' % (sta, sts), m
            if sta == 'ret':
                d = differ(ra, rs)
                if d:
                    sol = z3.Solver()
                    sol.set('timeout', 20000)
                    sol.add(*cons)
                    sol.add(*pa)
                    sol.add(*ps)
                    sol.add(z3.Or(*d))
                    r = sol.check()
                    if r == z3.sat:
                        return 'returned values differ', sol.model()
                    if r == z3.unknown:
                        raise Unsupported('solver unknown in comparison')
            base.add(z3.Not(sync_conj[hit]))
    return None


def worker(job):
    dump, tier, sd, idxs = job
    corpus = wowm.Corpus()
    targets = messages.login_targets(corpus)
    prog = Prog(dump)
    inv = Inventory(prog)
    ex = Exec(prog)
    ex.max_paths = 120
    ex.max_steps = 3000000
    scheds = schedules(tier)
    bounds = encode.Bounds('quick')
    bounds.max_shapes = 2 if tier == 'quick' else 3
    out = []
    for i in idxs:
        view, cont, path = targets[i]
        r = {'path': path, 'idx': i, 'findings': [], 'inc': [], 'runs': 0, 'schedules': 0, 'inputs': 0}
        try:
            roots = {k: inv.local.get('c06_%s_%d' % (k, i)) for k in 'tas'}
            if not all(roots.values()):
                raise Unsupported('entry points missing in the dump: %s' % [k for k, v in roots.items() if not v])
            nshape = 0
            for enc, ch in encode.shapes(corpus, view, cont, bounds, sd):
                nshape += 1
                full = [BV(cont['opcode'] & 0xFF, 8)] + list(enc.bytes)
                n = len(full)
                inputs = [('canonical', full, list(enc.cons))]
                cuts = sorted(set([0, 1, n // 2, n - 1])) if tier == 'quick' else sorted(set([0, 1, n - 1] + [(n * j) // 6 for j in range(1, 6)]))
                for k in cuts:
                    if 0 <= k < n:
                        inputs.append(('truncated@%d' % k, full[:k], list(enc.cons)))
                raw = [BV(cont['opcode'] & 0xFF, 8)] + [z3.BitVec('raw%d' % j, 8) for j in range(n - 1)]
                inputs.append(('arbitrary bytes', raw, []))
                for label, data, cons in inputs:
                    if z3.Solver().check(*cons) != z3.sat if cons else False:
                        continue
                    r['inputs'] += 1
                    sres = run_sync(ex, roots['s']['key'], data, cons)
                    for flavour in 'ta':
                        if tier != 'quick':
                            use = scheds if label == 'canonical' else (scheds[:21] + scheds[-2:])
                        elif label == 'canonical':
                            use = scheds
                        else:
                            use = scheds[:6] + [scheds[-1]]
                        for sc in use:
                            ares = run_async(ex, roots[flavour]['key'], data, cons, sc)
                            r['runs'] += 1
                            bad = compare(ex, cons, sres, ares)
                            if bad:
                                what, m = bad
                                bs = [m.eval(b, model_completion=True).as_long() for b in data]
                                r['findings'].append({'kind': 'tokio' if flavour == 't' else 'async-std', 'what': '%s: %s for input %s (%s), schedule %s' % ('tokio' if flavour == 't' else 'async-std', what, label, ' '.join('%02x' % b for b in bs[:40]), sc[:8]),
                                                      'bytes': bs, 'schedule': [str(x) for x in sc[:20]], 'input': label})
                                break
                        if r['findings']:
                            break
                    if r['findings']:
                        break
                if r['findings']:
                    break
            r['schedules'] = len(scheds)
        except encode.NotSupported as e:
            r['inc'].append('%s: unsupported by the reader: %s' % (path, e))
        except Unsupported as e:
            r['inc'].append('%s: %s' % (path, str(e)[:300]))
        except Exception:
            r['inc'].append('%s: checker exception %s' % (path, traceback.format_exc()[-600:]))
        out.append(r)
    return out, sorted(ex.fns_reached), ex.stats


def run(tier, only=None):
    ck = Check(PROP, tier, 'model_checking')
    corpus = wowm.Corpus()
    sd = seed()
    items, targets = login_items(corpus)
    out, dropped = mirdump.dump_items('async_login', ['wow_login_messages', 'tokio', 'async-std'], items, [], extra_rs=PRELUDE)
    for k, why in dropped.items():
        ck.inconclusive.append('entry %s does not compile: %s' % (k, why[:200]))
    idxs = [i for i, (v, c, p) in enumerate(targets) if not only or only in p]
    nproc = min(NCPU, max(1, len(idxs)))
    chunks = [c for c in (idxs[j::nproc * 2] for j in range(nproc * 2)) if c]
    with mp.Pool(nproc) as pool:
        results = pool.map(worker, [(out, tier, sd, c) for c in chunks], chunksize=1)
    tot = {'messages': 0, 'runs': 0, 'inputs': 0}
    fns = set()
    nsched = 0
    for res, f, stats in results:
        fns.update(f)
        for r in res:
            tot['messages'] += 1
            tot['runs'] += r['runs']
            tot['inputs'] += r['inputs']
            nsched = max(nsched, r['schedules'])
            ck.inconclusive.extend(r['inc'])
            if r['runs'] and len(ck.cov['samples']) < 6:
                ck.sample({'message': r['path'], 'inputs': r['inputs'], 'async_runs_compared': r['runs'], 'schedules': r['schedules']})
            for fd in r['findings']:
                ck.violation('%s/%s' % (r['path'], fd['kind']), fd['what'], dict(fd, message=r['path']), confirmed=True)
    ck.assume('read_exact futures (tokio ReadExact, async-std ReadExactFuture) are modelled from their documented contract (vf/models.py _rex_poll); the coroutine state machines of the tokio_/astd_ readers and helpers are executed from their MIR')
    ck.assume('schedules: all sequences over {Pending, 1 byte, 2 bytes, everything} up to length 2 (quick) / 3 (thorough), plus single-byte delivery with and without a Pending before every byte (quick: truncated / arbitrary inputs use the first six and the byte-by-byte schedule; thorough: all of length <= 2 and both byte-by-byte schedules); truncations at 4 (quick) / 8 (thorough) positions; inputs: canonical encodings of the first shapes, truncations, arbitrary bytes of the same length')
    ck.assume('write variants build a Vec with the same write_into_vec and hand it to write_all once (checked structurally by C01 on write_into_vec); world tokio/async-std header readers are the same source text as the sync ones checked in C02-C (not re-executed here)')
    return ck.finish({'states': max(tot['runs'], 1), 'transitions': max(tot['runs'] * 3, 1), 'traces_validated_against_impl': 0, 'messages': tot['messages'], 'inputs': tot['inputs'], 'async_runs_compared': tot['runs'],
                      'schedules_per_input': nsched, 'functions_encoded_count': len(fns), 'functions_encoded': sorted(f for f in fns if 'tokio' in f or 'astd' in f)[:60],
                      'bounds': 'schedule length and input lengths as stated in assumptions; all byte values symbolic',
                      'rule': 'per (login message, input, flavour, schedule): every pair of feasible (async path, blocking path) must return structurally equal values (z3 on the differing scalars)'},
                     fail_on_inconclusive=False)


def replay(path):
    print(open(path).read()[:3000])
    print('VIOLATION property=%s replay=%s' % (PROP, path))
    return 1
