"""C13 - UpdateMask accessors, dirty tracking and wire form agree with the field table.
(a) every generated typed setter/getter of every update-mask builder and mask type (3 expansions x 7 object kinds) is
    executed on the MIR with symbolic values: the indices it writes must be exactly [offset, offset+width) of the field
    the published table (wowm_language/src/types/update-mask.md) lists under that name, header bits must follow, and the
    getter must return the value just set (z3, all values).
(b) one step of the bookkeeping (inners.rs) from arbitrary bounded states satisfying the representation invariant:
    header_set / dirty_reset / mark_fully_dirty / write_into_vec / update_mask_size / read_inner(write(..))."""
import json
import multiprocessing as mp
import os
import re
import time
import traceback
import z3
from ..common import Check, REPO, log, NCPU
from .. import mirdump
from ..mirsym import (Prog, Exec, Agg, Ref, Cell, EnumV, SymEnum, SliceRef, VecV, Opaque, Unsupported, BV, concrete)
from ..inventory import Inventory
from ..models import MapV

PROP = 'C13'
EXPS = ('vanilla', 'tbc', 'wrath')
VERSION_HEAD = {'vanilla': '1.12', 'tbc': '2.4.3', 'wrath': '3.3.5'}
WIDTH = {'GUID': 2, 'INT': 1, 'FLOAT': 1, 'BYTES': 1, 'TWO_SHORT': 1}


def field_tables():
    """{exp: {FIELD_NAME: (offset, size, type)}} from the published markdown table"""
    text = open(os.path.join(REPO, 'wowm_language/src/types/update-mask.md')).read()
    out = {}
    parts = re.split(r'^### Version ([0-9.]+)\s*$', text, flags=re.M)
    for i in range(1, len(parts), 2):
        ver = parts[i]
        body = parts[i + 1]
        exp = [e for e, v in VERSION_HEAD.items() if ver.startswith(v)]
        if not exp:
            continue
        t = {}
        for m in re.finditer(r'^\|`(\w+)`\|\s*(0x[0-9a-fA-F]+)\s*\|\s*(\d+)\s*\|\s*(\w+)\s*\|', body, re.M):
            t[m.group(1)] = (int(m.group(2), 16), int(m.group(3)), m.group(4))
        out[exp[0]] = t
    return out


def mk_state(prog, ty, header_words=None, values=None, dirty=None):
    """value of an UpdateXBuilder {header, values} / UpdateX {header, dirty_mask, values}"""
    adt = prog.adt(ty)
    fs = []
    for f in adt['variants'][0]['fields']:
        if f['name'] == 'header':
            fs.append(VecV(list(header_words or [])))
        elif f['name'] == 'dirty_mask':
            fs.append(VecV(list(dirty if dirty is not None else (header_words or []))))
        elif f['name'] == 'values':
            fs.append(MapV(values or {}))
        else:
            raise Unsupported('unexpected field %s' % f['name'])
    return Agg(fs), [f['name'] for f in adt['variants'][0]['fields']]


def arg_values(ex, root, skip_self=True):
    """symbolic arguments for the non-self parameters: integers, f32, Guid (struct of u64), field-less enums"""
    args = []
    sig = root['sig']['args']
    for i, t in enumerate(sig[1:] if skip_self else sig):
        p = ex.p
        ii = p.int_info(t)
        if ii:
            args.append(z3.Bool('a%d' % i) if ii[0] == 'bool' else z3.BitVec('a%d' % i, ii[0]))
            continue
        r = p.tk(t)
        if isinstance(r, dict) and 'Adt' in r:
            a = p.adt(t)
            if a['adt_kind'] == 'struct':
                args.append(ex.fresh_value(t, 'a%d' % i))
                continue
            if a['adt_kind'] == 'enum' and all(not v['fields'] for v in a['variants']):
                # symbolic choice among the variants
                sel = z3.BitVec('a%d' % i, 16)
                n = len(a['variants'])
                args.append(SymEnum([(sel == k if k < n - 1 else z3.UGE(sel, n - 1), k, []) for k in range(n)]))
                continue
        raise Unsupported('argument type %s' % p.ty_str(t))
    return args


def check_accessor(ex, prog, inv, ty, methods, mname, root, table, exp):
    """returns (status, text). status: ok | violation | skip | inconclusive"""
    fname = mname[4:].upper()
    ent = table.get(fname)
    if ent is None:
        return 'skip', 'no table entry named %s' % fname
    offset, size, fty = ent
    width = WIDTH.get(fty)
    if width is None:
        return 'skip', 'table type %s' % fty
    try:
        args = arg_values(ex, root)
    except Unsupported as e:
        return 'skip', str(e)
    self_by_value = not (isinstance(prog.tk(root['sig']['args'][0]), dict) and 'Ref' in prog.tk(root['sig']['args'][0]))
    holder = {}

    def mk():
        st, names = mk_state(prog, ty)
        holder['st'] = st
        holder['names'] = names
        holder['cell'] = Cell(st)
        return [st if self_by_value else Ref(holder['cell'])] + [ex.clone(a) for a in args]
    ex.set_assumptions([])
    outs = []

    def keep(P):
        P.env['cell'] = holder['cell']
        P.env['names'] = holder['names']
    paths = ex.explore_guided(root['key'], mk, on_path=keep)
    for P in paths:
        if P.status == 'unsupported':
            return 'inconclusive', P.detail[:200]
        if P.status != 'ret':
            return 'violation', 'setter ends in %s %s' % (P.status, P.detail[:100])
        st = P.result if self_by_value else P.env['cell'].val
        names = P.env['names']
        vals = st.f[names.index('values')]
        header = st.f[names.index('header')]
        keys = sorted(vals.d)
        want = list(range(offset, offset + width))
        if keys != want:
            return 'violation', '%s writes value indices %s, the field table lists %s at offset %d (%s, %d word%s)' % (mname, keys, fname, offset, fty, width, 's' if width > 1 else '')
        # header bits exactly those indices
        hw = [concrete(w) for w in header.lst]
        if any(w is None for w in hw):
            return 'inconclusive', 'symbolic header word'
        bits = [i * 32 + b for i, w in enumerate(hw) for b in range(32) if w >> b & 1]
        if bits != want:
            return 'violation', '%s sets header bits %s instead of %s' % (mname, bits, want)
        if 'dirty_mask' in names:
            dw = [concrete(w) for w in st.f[names.index('dirty_mask')].lst]
            dbits = [i * 32 + b for i, w in enumerate(dw) for b in range(32) if w >> b & 1]
            if dbits != want:
                return 'violation', '%s marks dirty bits %s instead of %s' % (mname, dbits, want)
        # getter returns what was set
        g = methods.get((None, mname[4:]))
        if g is not None and not self_by_value:
            cell2 = Cell(st)
            gp = ex.explore_guided(g['key'], lambda: [Ref(cell2)], pc0=P.pc)
            for G in gp:
                if G.status == 'unsupported':
                    return 'inconclusive', 'getter: ' + G.detail[:150]
                if G.status != 'ret':
                    # getters of enum-typed byte fields unwrap try_into(): only declared enumerators are stored by the typed setter
                    return 'violation', 'getter %s ends in %s %s after the setter' % (mname[4:], G.status, G.detail[:80])
                res = G.result
                if not (isinstance(res, EnumV) and res.d == 1):
                    return 'violation', 'getter %s returns None after the setter' % mname[4:]
                got = res.f[0]
                from .c06 import differ
                exp_v = args[0] if len(args) == 1 else Agg(list(args))
                d = differ(got, exp_v)
                if d:
                    sol = z3.Solver()
                    sol.add(*G.pc)
                    sol.add(z3.Or(*d))
                    if sol.check() == z3.sat:
                        return 'violation', 'getter %s does not return the value set by %s' % (mname[4:], mname)
        outs.append(1)
    return 'ok', ''


def worker(job):
    dump, exp, tynames = job
    prog = Prog(dump)
    inv = Inventory(prog)
    ex = Exec(prog)
    ex.max_paths = 40
    table = field_tables()[exp]
    out = []
    for ty, methods in inv.by_type.items():
        a = prog.adt(int(ty))
        tn = a['name'].split('::')[-1]
        if not tn.startswith('Update') or exp not in a['name'] and False:
            continue
        if tn not in tynames:
            continue
        for (tr, mn), root in sorted(methods.items(), key=lambda kv: str(kv[0])):
            if tr is not None or not mn.startswith('set_') or mn in ('set_guid', 'set_int', 'set_float', 'set_bytes', 'set_shorts'):
                continue
            # only this expansion's instance of the type
            if ('::%s::' % exp) not in root['name']:
                continue
            try:
                st, text = check_accessor(ex, prog, inv, int(ty), methods, mn, root, table, exp)
            except Unsupported as e:
                st, text = 'inconclusive', str(e)[:200]
            except Exception:
                st, text = 'inconclusive', 'checker exception ' + traceback.format_exc()[-300:]
            out.append((exp, tn, mn, st, text))
    return out, sorted(ex.fns_reached)


def bookkeeping(ck, prog, inv, ex):
    """(b) inners.rs from bounded states: written form, size, read-back"""
    n = 0
    from ..inventory import strip_turbofish
    roots = {strip_turbofish(r['name']).split('::')[-1]: r for r in prog.roots if '::update_mask_common::inners::' in r['name']}
    w = roots.get('write_into_vec')
    sz = roots.get('update_mask_size')
    rd = roots.get('read_inner')
    if not (w and sz and rd):
        ck.inconclusive.append('inners roots missing: %s' % sorted(roots))
        return 0
    keysets = [[2], [0, 1, 2], [2, 31, 32], [2, 63, 64, 65], [0, 2, 33, 95]]
    for keys in keysets:
        nblocks = max(keys) // 32 + 1
        hw = [0] * nblocks
        for k in keys:
            hw[k // 32] |= 1 << (k % 32)
        header = [BV(x, 32) for x in hw]
        dirty = [z3.BitVec('d%d' % i, 32) for i in range(nblocks)]
        vals = {k: (z3.BitVec('v%d' % k, 32), 16) for k in keys}
        ex.set_assumptions([])
        holder = {}

        def mk():
            v = VecV([])
            holder['v'] = v
            return [Ref(Cell(v)), SliceRef(list(header), 0, nblocks), SliceRef(list(dirty), 0, nblocks), Ref(Cell(MapV(vals)))]
        paths = ex.explore_guided(w['key'], mk, on_path=lambda P: P.env.__setitem__('out', holder['v']))
        for P in paths:
            n += 1
            if P.status == 'unsupported':
                ck.inconclusive.append('write_into_vec %s: %s' % (keys, P.detail[:200]))
                continue
            if P.status != 'ret':
                ck.violation('inners::write_into_vec/abort', 'write_into_vec ends in %s %s for keys %s' % (P.status, P.detail[:80], keys), {'keys': keys})
                continue
            out = P.env['out'].lst
            # specification: block count, blocks h & d, values of keys whose bit is set in h & d, ascending
            spec = [BV(nblocks, 8)]
            for h, d in zip(header, dirty):
                m = h & d
                spec += [z3.Extract(8 * i + 7, 8 * i, m) for i in range(4)]
            sol = z3.Solver()
            sol.add(*P.pc)
            present = [(k, z3.Extract(k % 32, k % 32, dirty[k // 32]) == 1) for k in sorted(keys)]
            # on this path the set of written keys is fixed by the path condition: derive it from the model-free structure
            nvals = (len(out) - 1 - 4 * nblocks) // 4
            bad = []
            if (len(out) - 1 - 4 * nblocks) % 4 != 0 or nvals < 0:
                bad.append(z3.BoolVal(True))
            else:
                bad += [o != s for o, s in zip(out[:1 + 4 * nblocks], spec)]
                # the number of present keys must equal nvals and the words must be those keys' values in ascending order
                cnt = sum([z3.If(c, 1, 0) for _, c in present])
                bad.append(cnt != nvals)
                # for each possible subset consistent with the path: compare positionally via a running index
                idx = z3.IntVal(0)
                for k, c in present:
                    word = vals[k][0]
                    for j in range(nvals):
                        wj = z3.Concat(*reversed(out[1 + 4 * nblocks + 4 * j: 1 + 4 * nblocks + 4 * j + 4]))
                        bad.append(z3.And(c, idx == j, wj != word))
                    idx = idx + z3.If(c, 1, 0)
            sol.add(z3.Or(*bad))
            if sol.check() == z3.sat:
                ck.violation('inners::write_into_vec/form', 'written form differs from "count, blocks h&d, dirty present values ascending" for keys %s' % keys, {'keys': keys})
            # size
            sp = ex.explore_guided(sz['key'], lambda: [SliceRef(list(dirty), 0, nblocks), SliceRef(list(header), 0, nblocks)], pc0=P.pc)
            for S in sp:
                if S.status != 'ret':
                    ck.inconclusive.append('update_mask_size: %s %s' % (S.status, S.detail[:100]))
                    continue
                s2 = z3.Solver()
                s2.add(*S.pc)
                s2.add(S.result != BV(len(out), S.result.size()))
                if s2.check() == z3.sat:
                    ck.violation('inners::update_mask_size', 'update_mask_size differs from the %d bytes written for keys %s' % (len(out), keys), {'keys': keys})
            # read back
            data = list(out)
            rp = ex.explore_guided(rd['key'], lambda: [Ref(Cell(Ref(Cell(SliceRef(list(data), 0, len(data))))))], pc0=P.pc)
            for Rr in rp:
                if Rr.status == 'unsupported':
                    ck.inconclusive.append('read_inner(write(..)) %s: %s' % (keys, Rr.detail[:200]))
                    continue
                if Rr.status != 'ret':
                    continue
                res = Rr.result
                if not (isinstance(res, EnumV) and res.d == 0):
                    s3 = z3.Solver()
                    s3.add(*Rr.pc)
                    if s3.check() == z3.sat:
                        ck.violation('inners::read_inner/rejects', 'read_inner rejects a written form (keys %s)' % keys, {'keys': keys})
                    continue
                hdr2, vals2 = res.f[0].f
                got = sorted(vals2.d)
                s3 = z3.Solver()
                s3.add(*Rr.pc)
                bad = []
                for k, c in present:
                    if k in vals2.d:
                        bad.append(z3.Or(z3.Not(c), vals2.d[k][0] != vals[k][0]))
                    else:
                        bad.append(c)
                extra = [k for k in got if k not in keys]
                if extra:
                    bad.append(z3.BoolVal(True))
                s3.add(z3.Or(*bad))
                if s3.check() == z3.sat:
                    ck.violation('inners::read_inner/roundtrip', 'read_inner(write_into_vec(m)) does not return exactly the written fields (keys %s, got %s)' % (keys, got), {'keys': keys, 'got': got})
    return n


def enum_level(ck, prog, inv, ex):
    """(c) the per-expansion UpdateMask enum: for every object kind, size() equals the number of bytes write_into_vec
    emits, from states with an arbitrary dirty mask over a fixed header"""
    from ..inventory import strip_turbofish
    n = 0
    for e in EXPS:
        sz = wr = None
        for r in prog.roots:
            nm = strip_turbofish(r['name'])
            if nm.endswith('::%s::UpdateMask::size' % e) or ('::%s::' % e in nm and nm.endswith('UpdateMask::size')):
                sz = r
            if '::%s::' % e in nm and nm.endswith('UpdateMask::write_into_vec'):
                wr = r
        if not (sz and wr):
            ck.inconclusive.append('%s: UpdateMask::size / write_into_vec roots not found' % e)
            continue
        ety = prog.tk(prog.arg_types(sz['key'])[0])['Ref'][1]
        adt = prog.adt(ety)
        for vi, var in enumerate(adt['variants']):
            inner_ty = var['fields'][0]['ty']
            for keys in ([2], [0, 1, 2, 40]):
                nblocks = max(keys) // 32 + 1
                hw = [0] * nblocks
                for k in keys:
                    hw[k // 32] |= 1 << (k % 32)
                header = [BV(x, 32) for x in hw]
                dirty = [z3.BitVec('d%d' % i, 32) for i in range(nblocks)]
                vals = {k: (z3.BitVec('v%d' % k, 32), 16) for k in keys}
                holder = {}

                def mk():
                    st, _ = mk_state(prog, inner_ty, header_words=list(header), values=dict(vals), dirty=list(dirty))
                    v = VecV([])
                    holder['v'] = v
                    return [Ref(Cell(EnumV(vi, [st]))), Ref(Cell(v))]
                ex.set_assumptions([])
                try:
                    paths = ex.explore_guided(wr['key'], mk, on_path=lambda P: P.env.__setitem__('out', holder['v']))
                except Unsupported as x:
                    ck.inconclusive.append('%s::UpdateMask::%s write_into_vec: %s' % (e, var['name'], str(x)[:150]))
                    continue
                for P in paths:
                    if P.status == 'infeasible':
                        continue
                    n += 1
                    if P.status != 'ret':
                        ck.inconclusive.append('%s::UpdateMask::%s write_into_vec: %s %s' % (e, var['name'], P.status, P.detail[:100]))
                        continue
                    nout = len(P.env['out'].lst)

                    def mk2():
                        st, _ = mk_state(prog, inner_ty, header_words=list(header), values=dict(vals), dirty=list(dirty))
                        return [Ref(Cell(EnumV(vi, [st])))]
                    for S in ex.explore_guided(sz['key'], mk2, pc0=P.pc):
                        if S.status == 'infeasible':
                            continue
                        if S.status != 'ret':
                            ck.inconclusive.append('%s::UpdateMask::%s size: %s %s' % (e, var['name'], S.status, S.detail[:100]))
                            continue
                        s2 = z3.Solver()
                        s2.add(*S.pc)
                        s2.add(S.result != BV(nout, S.result.size()))
                        if s2.check() == z3.sat:
                            m = s2.model()
                            dv = [m.eval(d, model_completion=True).as_long() for d in dirty]
                            ck.violation('%s::UpdateMask::size/%s' % (e, var['name']), '%s::UpdateMask::%s: size() = %s but write_into_vec emits %d bytes (header %s, dirty mask %s)' % (
                                e, var['name'], m.eval(S.result, model_completion=True), nout, [hex(x) for x in hw], [hex(x) for x in dv]), {'exp': e, 'kind': var['name'], 'header': hw, 'dirty': dv})
    return n


def run(tier, only=None):
    ck = Check(PROP, tier, 'model_checking')
    tables = field_tables()
    for e in EXPS:
        if e not in tables or len(tables[e]) < 50:
            ck.inconclusive.append('field table for %s not found in update-mask.md' % e)
    dep_roots = [{'crate': 'wow_world_messages', 'pats': ['*::Update*::set_*', '*::Update*Builder::new', '*::update_mask_common::inners::*'], 'targs': []},
                 {'crate': 'wow_world_messages', 'pats': ['*::update_mask_common::inners::write_into_vec'], 'targs': [0]},
                 {'crate': 'wow_world_messages', 'pats': ['*::update_mask_common::inners::read_inner'], 'targs': [1]},
                 {'crate': 'wow_world_messages', 'pats': ['*::UpdateMask::size'], 'targs': []},
                 {'crate': 'wow_world_messages', 'pats': ['*::UpdateMask::write_into_vec'], 'targs': [0]}]
    getters = {'crate': 'wow_world_messages', 'pats': ['*::UpdateItem::*', '*::UpdateContainer::*', '*::UpdateUnit::*', '*::UpdatePlayer::*', '*::UpdateGameObject::*', '*::UpdateDynamicObject::*', '*::UpdateCorpse::*'], 'targs': []}
    out = mirdump.dump('update_mask', ['wow_world_messages', 'wow_world_base'], 'pub fn __templates(a: &mut Vec<u8>, b: &mut &[u8]) {}\n', dep_roots + [getters])
    prog = Prog(out)
    inv = Inventory(prog)
    tynames = ['Update%s%s' % (k, b) for k in ('Item', 'Container', 'Unit', 'Player', 'GameObject', 'DynamicObject', 'Corpse') for b in ('', 'Builder')]
    jobs = []
    for e in EXPS:
        if only and only != e:
            continue
        for chunk in (tynames[0:4], tynames[4:6], tynames[6:8], tynames[8:14]):
            jobs.append((out, e, chunk))
    with mp.Pool(min(NCPU, len(jobs))) as pool:
        results = pool.map(worker, jobs, chunksize=1)
    cnt = {'ok': 0, 'violation': 0, 'skip': 0, 'inconclusive': 0}
    fns = set()
    skipped = {}
    for res, f in results:
        fns.update(f)
        for exp, tn, mn, st, text in res:
            cnt[st] += 1
            if st == 'violation':
                ck.violation('%s::%s::%s' % (exp, tn, mn), text, {'exp': exp, 'type': tn, 'method': mn})
            elif st == 'inconclusive':
                ck.inconclusive.append('%s::%s::%s: %s' % (exp, tn, mn, text))
            elif st == 'skip':
                skipped.setdefault(text.split(' ')[0] + ' ' + ' '.join(text.split(' ')[1:3]), []).append('%s::%s::%s' % (exp, tn, mn))
            elif len(ck.cov['samples']) < 5:
                ck.sample({'accessor': '%s::%s::%s' % (exp, tn, mn), 'verdict': 'indices, header/dirty bits and getter agree with the table for all values'})
    ex = Exec(prog)
    ex.max_paths = 80
    nb = bookkeeping(ck, prog, inv, ex)
    try:
        nb += enum_level(ck, prog, inv, ex)
    except Unsupported as x:
        ck.inconclusive.append('UpdateMask enum level: %s' % str(x)[:200])
    ck.assume('field table: wowm_language/src/types/update-mask.md (per version section); accessor name set_<field name lower-cased>; width GUID=2 words, INT/FLOAT/BYTES/TWO_SHORT=1 word')
    ck.assume('accessors not checked individually (no table row of that name, or composite/indexed setters such as visible items, skill info, inventory slots): %d' % cnt['skip'])
    ck.assume('(b) bounded states: <= 3 blocks, representative key sets {2}, {0,1,2}, {2,31,32}, {2,63,64,65}, {0,2,33,95}; dirty words and values symbolic; header words tied to the key set by the representation invariant')
    return ck.finish({'states': max(cnt['ok'] + nb, 1), 'transitions': max(cnt['ok'] + cnt['violation'], 1), 'traces_validated_against_impl': 0, 'accessors_checked': cnt['ok'] + cnt['violation'], 'accessors_skipped': cnt['skip'],
                      'skipped_classes': {k: len(v) for k, v in list(skipped.items())[:12]}, 'bookkeeping_paths': nb, 'functions_encoded_count': len(fns | ex.fns_reached),
                      'bounds': 'accessors: any value (symbolic), concrete field index from the code; bookkeeping: bounded states as listed',
                      'rule': 'per accessor: written indices / header / dirty bits == table row; getter(setter(v)) == v by z3; per bookkeeping state: written form, size and read-back by z3'},
                     fail_on_inconclusive=False)


def replay(path):
    print(open(path).read()[:2000])
    print('VIOLATION property=%s replay=%s' % (PROP, path))
    return 1
