"""C19 - every supported feature combination builds and exposes the same codecs (build half, restricted claim).
The sources of the three libraries are scanned into a configuration model (vf/cfgscan.py): every module, item
definition and path reference with the cfg condition under which it is compiled, and the feature implications of the
Cargo manifests (including optional dependencies and the features wow_world_messages switches on in wow_world_base).
z3 then decides, for ALL feature assignments at once, that every resolved reference is compiled only when its target
is: cond(reference) /\ manifest implications => cond(target modules) /\ cond(target definition), and that code naming an
optional dependency is compiled only when that dependency is enabled. A satisfying assignment is a concrete feature
set; it is replayed with `cargo check` on a scratch copy and reported only if that build fails."""
import json
import os
import re
import shutil
import time
import z3
from ..common import Check, REPO, WORK, log, sh
from .. import cfgscan

PROP = 'C19'
CRATES = ['wow_world_base', 'wow_login_messages', 'wow_world_messages']


def build_model():
    crates = {}
    for name in CRATES:
        root = os.path.join(REPO, name)
        f = cfgscan.Features(name, open(os.path.join(root, 'Cargo.toml')).read())
        crates[name] = cfgscan.Crate(name, root, f, roots_ext=('wow_world_base',) if name == 'wow_world_messages' else ())
    return crates


def link(crates):
    """feature propagation wow_world_messages -> wow_world_base when wow_world_messages is the crate being built
    (the workspace dependency sets default-features = false and no features of its own)"""
    cons = []
    wm, wb = crates['wow_world_messages'], crates['wow_world_base']
    prop = wm.f.dep_features.get('wow_world_base', {})
    for bf in wb.f.features:
        srcs = [wm.f.var(f) for f in prop.get(bf, [])]
        # inside base, features may imply each other; as a dependency, base feature bf is on iff something switches it on
        cons.append(wb.f.var(bf) == (z3.Or(*srcs) if srcs else z3.BoolVal(False)))
    for d in wb.f.optional:
        srcs = [wm.f.var(f) for f in prop.get(d, [])]
        cons.append(wb.f.var(d) == (z3.Or(*srcs) if srcs else z3.BoolVal(False)))
    return cons


def feature_set(model, feats):
    return sorted(f for f, v in feats.vars.items() if z3.is_true(model.eval(v, model_completion=True)))


def native_check(crate, features):
    """cargo check of one configuration on a scratch copy of the working tree"""
    scratch = '/tmp/verif-c19/repo'
    os.makedirs(os.path.dirname(scratch), exist_ok=True)
    r = sh(['rsync', '-a', '--delete', '--exclude', '/target', '--exclude', '/.git', REPO + '/', scratch + '/'], timeout=600)
    fs = [f for f in features if f != 'default']
    cmd = ['cargo', 'check', '--offline', '-q', '-p', crate, '--no-default-features', '--lib'] + (['--features', ' '.join(fs)] if fs else [])
    r = sh(cmd, cwd=scratch, env={'CARGO_TARGET_DIR': os.path.join(WORK, 'c19-target')}, timeout=3600)
    errs = [l for l in (r.stdout or '').splitlines() if l.startswith('error')]
    return r.returncode, errs[:5], ' '.join(cmd)


def run(tier, only=None):
    ck = Check(PROP, tier, 'model_checking')
    t0 = time.time()
    crates = build_model()
    linkc = link(crates)
    nq = nref = nunk = next_ = nmeth = 0
    cex = {}
    stats = {}
    for name in CRATES:
        if only and only not in name:
            continue
        c = crates[name]
        base = list(c.f.cons)
        if name == 'wow_world_messages':
            base += list(crates['wow_world_base'].f.cons) + linkc
        sol = z3.Solver()
        sol.add(*base)
        memo = {}
        unknown = {}

        def valid(cond, need, what, file):
            """cond /\ base => need, for all feature assignments"""
            nonlocal nq
            key = (cond.sexpr(), need.sexpr())
            if key in memo:
                return memo[key]
            sol.push()
            sol.add(cond, z3.Not(need))
            r = sol.check()
            nq += 1
            res = None
            if r == z3.sat:
                m = sol.model()
                res = feature_set(m, c.f)
            sol.pop()
            memo[key] = res
            return res
        for ref in c.refs:
            nref += 1
            segs = ref.segs
            if name == 'wow_world_messages' and segs[0] == 'wow_world_base':
                # cross-crate: resolve inside wow_world_base
                r2 = cfgscan.Ref_(ref.file, (), ref.cond, ['crate'] + segs[1:])
                kind, need = crates['wow_world_base'].resolve(r2)
            else:
                kind, need = c.resolve(ref)
            if kind == 'unknown':
                nunk += 1
                unknown[need[:60]] = unknown.get(need[:60], 0) + 1
                continue
            if kind == 'ext':
                dep = cfgscan.EXTERNAL.get(need)
                if dep is None or dep not in c.f.optional:
                    continue
                next_ += 1
                need = c.f.var(dep)
            fs = valid(ref.cond, need, '::'.join(segs), ref.file)
            if fs is not None:
                k = '%s/%s' % (name, '::'.join(segs))
                cex.setdefault((name, tuple(fs)), []).append((os.path.relpath(ref.file, REPO), '::'.join(segs)))
        for file, cond, meth in c.method_calls:
            defs = c.methods.get(meth)
            if not defs:
                continue
            nmeth += 1
            fs = valid(cond, z3.Or(*defs) if len(defs) > 1 else defs[0], meth, file)
            if fs is not None:
                cex.setdefault((name, tuple(fs)), []).append((os.path.relpath(file, REPO), 'method ' + meth))
        # the same item defined differently under different configurations: codecs using it may behave differently
        nalt = 0
        for mp, m in c.mods.items():
            for iname, lst in m.bodies.items():
                if len(lst) < 2 or len(set(x[2] for x in lst)) < 2:
                    continue
                for a in range(len(lst)):
                    for b in range(a + 1, len(lst)):
                        ka, ca, ha, fa = lst[a]
                        kb, cb, hb, fb = lst[b]
                        if ha == hb:
                            continue
                        sol.push()
                        sol.add(ca)
                        ra = sol.check()
                        sol.pop()
                        sol.push()
                        sol.add(cb)
                        rb = sol.check()
                        sol.pop()
                        sol.push()
                        sol.add(ca != cb)
                        rd = sol.check()
                        sol.pop()
                        nq += 3
                        if ra == z3.sat and rb == z3.sat and rd == z3.sat:
                            nalt += 1
                            ck.violation('%s/%s::%s/configuration-dependent' % (name, '::'.join(mp), iname), '%s: %s %s::%s has two different definitions selected by cfg (%s vs %s): code using it behaves differently between feature sets that both build' % (
                                name, ka, '::'.join(mp) or 'crate', iname, str(z3.simplify(ca))[:120], str(z3.simplify(cb))[:120]), {'crate': name, 'item': iname, 'file': os.path.relpath(fa, REPO)}, confirmed=True)
        stats[name] = {'configuration_dependent_definitions': nalt, 'modules': len(c.mods), 'references': len(c.refs), 'flavoured_method_calls': len(c.method_calls), 'unresolved': sum(unknown.values()), 'unresolved_kinds': dict(sorted(unknown.items(), key=lambda x: -x[1])[:5]),
                       'cfg_inside_fn_bodies': len(c.body_cfgs), 'features': sorted(c.f.vars), 'files_not_scanned': c.unparsed[:5]}
    # replay each distinct counterexample configuration natively
    nnative = 0
    for (name, fs), sites in sorted(cex.items(), key=lambda x: -len(x[1]))[:6]:
        rc, errs, cmd = native_check(name, fs)
        nnative += 1
        site = sites[0]
        if rc != 0:
            ck.violation('%s/%s' % (name, site[1]), '%s does not build with features [%s]: %s in %s is compiled although its target is not (%d such references); `%s` fails: %s' % (
                name, ' '.join(fs) or 'none', site[1], site[0], len(sites), cmd, ' | '.join(errs)[:400]), {'crate': name, 'features': list(fs), 'sites': sites[:20], 'cmd': cmd, 'errors': errs}, confirmed=True)
        else:
            ck.inconclusive.append('%s: model reports %s (%s) uncompilable with features [%s] but cargo check succeeds: the configuration model is imprecise here' % (name, site[1], site[0], ' '.join(fs)))
    shutil.rmtree('/tmp/verif-c19', ignore_errors=True)
    for name, s in stats.items():
        ck.sample(dict(s, crate=name))
    ck.assume('claim restricted to the build half of the property and to what the scanner resolves: module declarations, item definitions, use trees, crate::/super::/self:: paths, paths into optional dependencies (tokio, async-std, wow_srp, chrono, serde), paths from wow_world_messages into wow_world_base, and calls of tokio_*/astd_* methods; unresolved references (re-exports through globs, names brought in by macros) are counted in the evidence and not judged')
    ck.assume('cfg(test) is taken as false (library builds); "a codec that exists in two configurations behaves identically": decided only structurally: no const/static/fn/type of a module may have two different bodies selected by different cfg conditions, and the cfg attributes inside function bodies are counted (none); behaviour itself is not compared')
    ck.assume('feature model: [features] tables, optional dependencies as implicit features, "dep/feature" enabling the dependency, and for wow_world_messages the features it switches on in wow_world_base (workspace dependency with default-features = false)')
    return ck.finish({'states': max(nref, 1), 'transitions': max(nq, 1), 'traces_validated_against_impl': nnative, 'references': nref, 'external_dependency_references': next_, 'method_calls': nmeth,
                      'unresolved_references': nunk, 'solver_queries': nq, 'native_builds': nnative,
                      'bounds': 'all feature assignments of each crate at once (boolean variables); no enumeration of configurations',
                      'rule': 'for every resolved reference: cond(ref) /\\ manifest => cond(target) valid (z3); counterexample = feature set, replayed with cargo check'}, fail_on_inconclusive=False)


def replay(path):
    j = json.load(open(path))
    rc, errs, cmd = native_check(j['crate'], j['features'])
    shutil.rmtree('/tmp/verif-c19', ignore_errors=True)
    print(cmd, '->', rc, errs[:3])
    if rc != 0:
        print('VIOLATION property=%s replay=%s' % (PROP, path))
        return 1
    return 0
