"""C17 - the generated Wireshark dissector code walks every message exactly to its end.
The real generator is run on a scratch copy of the current tree; the C fragments it emits (parser.txt) are parsed and
interpreted symbolically (vf/wsh.py) over the canonical encodings of each Vanilla world message and each login message
version (vf/encode.py: all field values symbolic, one encoding per covered shape). Integers the dissector reads are z3
terms; every condition and loop bound must be decided by the shape's constraints (solver implication), every read must
start at a field boundary with the field's width and endianness, string / packed-guid / mask helpers must meet fields
of their type, and the cursor must stand exactly at the end of the body at the final break. Referenced hf_ fields,
variables and enumerators must be declared / registered in the sibling fragments."""
import os
import re
import z3
from ..common import Check, log, seed
from .. import wowm, encode, gen, wsh

PROP = 'C17'


def case_map(stmts):
    """top-level switch statements -> {label: body}"""
    out = {}
    for s in stmts:
        if s[0] == 'switch':
            for labels, body in s[2]:
                for l in labels:
                    out.setdefault(l, body)
    return out


def run(tier, only=None):
    ck = Check(PROP, tier, 'model_checking')
    sd = seed()
    scratch, out, rc = gen.regenerate()
    try:
        if rc != 0:
            ck.violation('generator/exit', 'the generator exits with status %d on the unmodified tree: %s' % (rc, out[-300:]), {'rc': rc, 'output': out[-2000:]})
            return ck.finish({'states': 1, 'transitions': 1, 'traces_validated_against_impl': 0})
        wd = os.path.join(scratch, 'wow_message_parser', 'tests', 'wireshark')
        text = {n: open(os.path.join(wd, n + '.txt')).read() for n in ('parser', 'enums', 'imports', 'register', 'variables')}
        try:
            frag = wsh.parse_fragment(text['parser'])
        except wsh.Unsupported as e:
            ck.violation('parser.txt/syntax', 'the generated fragment is outside the C subset the generator is known to emit: %s' % e, {})
            return ck.finish({'states': 1, 'transitions': 1, 'traces_validated_against_impl': 0})
        cases = case_map(frag)
        enums = wsh.parse_enums(text['enums'])
        # ---- declarations (data)
        hfs = set(re.findall(r'\bhf_wow[w]?_[a-z0-9_]+', text['parser']))
        declared = set(re.findall(r'static int (hf_wow[w]?_[a-z0-9_]+);', text['imports']))
        registered = set(re.findall(r'\{ &(hf_wow[w]?_[a-z0-9_]+),', text['register']))
        for h in sorted(hfs - declared)[:10]:
            ck.violation('decl/' + h, 'field %s is used by the dissector code but not declared (imports.txt)' % h, {})
        for h in sorted(hfs - registered)[:10]:
            ck.violation('register/' + h, 'field %s is used by the dissector code but not registered (register.txt)' % h, {})
        vars_used = set(re.findall(r'&([a-z_][a-z0-9_]*)\)', text['parser'])) - set(h for h in hfs)
        vars_used = set(v for v in vars_used if not v.startswith('hf_'))
        vars_decl = set(re.findall(r'guint32 ([a-z_][a-z0-9_]*) = 0;', text['variables']))
        for v in sorted(vars_used - vars_decl)[:10]:
            ck.violation('variable/' + v, 'variable %s is written by the dissector code but not declared (variables.txt)' % v, {})
        corpus = wowm.Corpus(os.path.join(scratch, 'wow_message_parser', 'wowm'))
        bounds = encode.Bounds('quick' if tier == 'quick' else 'thorough')
        bounds.max_shapes = 8 if tier == 'quick' else 60
        nmsg = nshape = nreads = 0
        unsupported = {}
        uncovered = []
        targets = [('world', 'vanilla', corpus.world_view('vanilla'))] + [('login', n, corpus.login_view(n)) for n in wowm.LOGIN_ALL]
        for kind, target, view in targets:
            for name, c in sorted(view['containers'].items()):
                if c['k'] == 'struct' or corpus.is_test_object(c):
                    continue
                if only and only not in name:
                    continue
                label = re.sub(r'_(Client|Server)$', '', name)
                body = cases.get(label)
                key = '%s/%s/%s' % (kind, target, name)
                if body is None:
                    if [m for m in c['members'] if m['k'] != 'unimplemented'] and kind == 'world':
                        ck.violation(key + '/missing', '%s has members but the dissector has no case for it' % name, {})
                    continue
                to_client = c['k'] in ('smsg', 'slogin')
                if corpus.tag(c, 'compressed') == 'true':
                    ck.inconclusive.append('%s: outside the encoder/interpreter: compressed message' % key)
                    continue
                nmsg += 1
                try:
                    for enc, ch in encode.shapes(corpus, view, c, bounds, sd, record_elements=True):
                        if enc.cons and z3.Solver().check(*enc.cons) != z3.sat:
                            continue
                        nshape += 1
                        shape = ';'.join('%s=%d' % (l.split('.', 1)[-1], k) for l, nn, k in ch.seen)[:100]
                        w = wsh.Walker(enc, corpus, view, enums, to_client, protocol=target if kind == 'login' else None)
                        try:
                            try:
                                w.run(body)
                            except wsh.Break:
                                pass
                            nreads += len(w.trace)
                            if w.pos != w.n:
                                raise wsh.DissectorError('stops at offset %d, the body has %d bytes (next field: %s)' % (w.pos, w.n, w.where()))
                        except wsh.DissectorError as e:
                            if str(e).startswith('no case for protocol version'):
                                uncovered.append(key)
                                break
                            msg = str(e)
                            mnext = re.search(r'next field: \S+?\.([A-Za-z_0-9\[\]\.]+) ', msg)
                            if msg.startswith('stops at offset') and mnext:
                                cls = 'stops-before-' + re.sub(r'\[\d+\]', '[]', mnext.group(1))
                            else:
                                cls = re.sub(r'[^a-z]+', '-', re.sub(r'(hf_\w+|\(.*?\)|\d+)', '', msg.lower()))[:40].strip('-')
                            ck.violation(key + '/' + cls, '%s (%s %s): %s [shape %s; reads so far: %s]' % (name, kind, target, e, shape, ' '.join('%s@%d+%d' % (h.replace('hf_woww_', '').replace('hf_wow_', ''), p, n) for h, p, n in w.trace[-6:])),
                                         {'message': name, 'shape': shape, 'error': str(e)})
                            break
                except (encode.NotSupported, wsh.Unsupported) as e:
                    unsupported[str(e)[:60]] = unsupported.get(str(e)[:60], 0) + 1
                    ck.inconclusive.append('%s: outside the encoder/interpreter: %s' % (key, str(e)[:100]))
        ck.sample({'login_messages_without_case_for_their_version': uncovered, 'messages': nmsg, 'shapes': nshape, 'reads_checked': nreads, 'hf_fields': len(hfs), 'enumerators': len(enums), 'outside': unsupported})
        ck.assume('the helper functions of the hand-written part of the dissector (add_cstring, add_sized_cstring, add_string, add_packed_guid, add_aura_mask, add_monster_move_spline, add_update_mask) are taken to consume exactly one value of their type; messages with compressed payloads or UpdateMask members are outside the encoder')
        ck.assume('canonical encodings and shapes as in C01 (counts/lengths <= %d, shapes per message capped at %d); the fragment is interpreted, not compiled: C semantics of the subset (32-bit unsigned variables, ==, !=, &, ||, <) are modelled in z3' % (max(bounds.array_counts), bounds.max_shapes))
        return ck.finish({'states': max(nshape, 1), 'transitions': max(nreads, 1), 'traces_validated_against_impl': 0, 'messages': nmsg, 'shapes': nshape,
                          'rule': 'per message and shape: every read starts at a field boundary with the field width/endianness, every condition and loop bound is decided by the shape (z3 implication), cursor == body length at the end'}, fail_on_inconclusive=False)
    finally:
        gen.cleanup()


def replay(path):
    print(open(path).read()[:2000])
    print('VIOLATION property=%s replay=%s' % (PROP, path))
    return 1
