"""C16 - ill-formed wowm is rejected with the specific diagnostic of the rule it breaks.
Two parts. (A, solver) the version relations every lookup and clash detection rests on - WorldVersion::overlaps/covers,
LoginVersion::overlaps/fullfills - are executed from the generator's MIR with both arguments fully symbolic (variant
and all fields) and compared by z3 with their set semantics (a version denotes the set of exact builds it matches:
overlaps <=> the sets intersect, covers <=> superset), plus symmetry and covers => overlaps. (B, fault injection - not
a solver claim) each static rule is violated at several sites of the real corpus (top level, structs referenced by
messages, inside if / optional blocks, files using tag_all, objects using paste_versions) in a scratch copy and the
real generator must stop with that rule's exit status; the unmodified tree must be accepted."""
import json
import os
import random
import re
import shutil
import time
import z3
from ..common import Check, WORK, log, seed, sh
from .. import wowm, gen, mirdump

PROP = 'C16'


# ------------------------------------------------------------------------------------------- (B) injections
def obj_span(text, line):
    """[start, end) of the object whose keyword is on `line` (1-based), including its trailing tag block"""
    start = 0
    for _ in range(line - 1):
        start = text.index('\n', start) + 1
    i = text.index('{', start)
    depth = 0
    while True:
        ch = text[i]
        if ch == '{':
            depth += 1
        elif ch == '}':
            depth -= 1
            if depth == 0:
                break
        i += 1
    end = i + 1
    m = re.match(r'\s*\{[^{}]*\}', text[end:])
    if m:
        end += m.end()
    return start, end


def decls(ms, ctx='top', out=None):
    out = out if out is not None else []
    for m in ms:
        if m['k'] == 'decl':
            out.append((ctx, m))
        elif m['k'] == 'if':
            for _, b in m['branches']:
                decls(b, 'if', out)
            if m['els']:
                decls(m['els'], 'if', out)
        elif m['k'] == 'optional':
            decls(m['members'], 'optional', out)
    return out


def ifs(ms, out=None):
    out = out if out is not None else []
    for m in ms:
        if m['k'] == 'if':
            out.append(m)
            for _, b in m['branches']:
                ifs(b, out)
            if m['els']:
                ifs(m['els'], out)
        elif m['k'] == 'optional':
            ifs(m['members'], out)
    return out


def sub_in(block, pattern, repl, count=1):
    new, n = re.subn(pattern, repl, block, count=count)
    return new if n else None


class Injector:
    def __init__(self, corpus, root):
        self.c = corpus
        self.root = root
        self.text = {}
        self.tag_all = {}
        self.used_structs = set()
        for o in corpus.objects:
            if o['k'] in wowm.CONTAINER_KW and o['k'] != 'struct':
                for _, m in decls(o['members']):
                    self.used_structs.add(m['ty'])
        self.tested = set(o['name'] for o in corpus.objects if o['k'] == 'test')

    def src(self, rel):
        if rel not in self.text:
            self.text[rel] = open(os.path.join(self.root, rel)).read()
            self.tag_all[rel] = '#tag_all' in self.text[rel]
        return self.text[rel]

    def has_tag_all(self, rel):
        self.src(rel)
        return self.tag_all[rel]

    def site_kind(self, o, ctx='top'):
        k = []
        if self.has_tag_all(o['file']):
            k.append('tag_all')
        if self.c.tag(o, 'paste_versions'):
            k.append('paste_versions')
        if o['k'] == 'struct' and o['name'] in self.used_structs:
            k.append('struct-in-message')
        elif o['k'] in ('clogin', 'slogin'):
            k.append('login-message')
        elif o['k'] != 'struct' and o['k'] in wowm.CONTAINER_KW:
            k.append('world-message')
        k.append(ctx)
        return '+'.join(k)

    def mutate_block(self, o, fn):
        """apply fn(block_text) -> new block or None to the object's text; returns new file text or None"""
        t = self.src(o['file'])
        try:
            a, b = obj_span(t, o['line'])
        except ValueError:
            return None
        nb = fn(t[a:b])
        if nb is None or nb == t[a:b]:
            return None
        return t[:a] + nb + t[b:]

    # each generator yields (rule, expected constant name, site description, rel file, new text)
    def candidates(self, rng, per_rule):
        objs = [o for o in self.c.objects if o['k'] != 'test' and not self.c.is_test_object(o)]
        conts = [o for o in objs if o['k'] in wowm.CONTAINER_KW]
        defs = [o for o in objs if o['k'] in ('enum', 'flag')]
        view_defs = {}
        for d in defs:
            view_defs.setdefault(d['name'], []).append(d)
        rng.shuffle(conts)
        rng.shuffle(defs)
        INT = ('u8', 'u16', 'u32', 'u64', 'i32', 'Guid', 'f32', 'Bool')

        def spread(gen_, n):
            """take n candidates preferring distinct site kinds"""
            seen = {}
            rest = []
            for item in gen_:
                kind = item[2]
                if kind not in seen:
                    seen[kind] = item
                else:
                    rest.append(item)
                if len(seen) >= n:
                    break
            out = list(seen.values())
            return (out + rest)[:n]

        def unknown_type():
            for o in conts:
                for ctx, m in decls(o['members']):
                    if m['ty'] in INT and m['arr'] is None and m['val'] is None:
                        nt = self.mutate_block(o, lambda b: sub_in(b, r'\b%s\s+%s\s*;' % (re.escape(m['ty']), re.escape(m['name'])), 'NoSuchTypeVerif %s;' % m['name']))
                        if nt:
                            yield ('unknown type', 'COMPLEX_NOT_FOUND', self.site_kind(o, ctx), o, nt)
                        break

        def partial_type():
            # a container covering several versions as ONE object whose member type exists only piecewise per version
            for o in conts:
                pv = self.c.tag(o, 'paste_versions')
                if not pv or self.c.tag(o, 'versions') or len(pv.split()) < 2:
                    continue
                mains = [e for e in ('vanilla', 'tbc', 'wrath') if wowm.world_covers(wowm.parse_world_versions(pv), wowm.WORLD_MAIN[e])]
                if len(mains) < 2:
                    continue
                for ctx, m in decls(o['members']):
                    cands = [d for d in self.c.objects if d['name'] == m['ty'] and d['k'] != 'test']
                    if len(cands) < 2:
                        continue
                    # no single definition of the type covers all versions of the container
                    def covers_all(d):
                        vs = wowm.parse_world_versions(((self.c.tag(d, 'versions') or '') + ' ' + (self.c.tag(d, 'paste_versions') or '')))
                        return all(wowm.world_covers(vs, wowm.WORLD_MAIN[e]) for e in mains)
                    if any(covers_all(d) for d in cands):
                        continue
                    nt = self.mutate_block(o, lambda b: sub_in(b, r'\bpaste_versions\s*=', 'versions ='))
                    if nt:
                        yield ('member type defined for only some of the versions of its container', 'COMPLEX_NOT_FOUND', self.site_kind(o, ctx), o, nt)
                    break

        def recursive():
            for o in conts:
                if o['k'] == 'struct':
                    nt = self.mutate_block(o, lambda b: sub_in(b, r'\{', '{\n    %s verif_self;' % o['name']))
                    if nt:
                        yield ('recursive type', 'RECURSIVE_TYPE', self.site_kind(o), o, nt)

        def if_sites(kind, single=False):
            for o in conts:
                for st in ifs(o['members']):
                    if single and (len(st['branches']) != 1 or len(st['branches'][0][0]) != 1 or st['els'] is not None):
                        continue      # mixing operators inside one statement is a different error
                    var, op, en = st['branches'][0][0][0]
                    dk = None
                    for ctx, m in decls(o['members']):
                        if m['name'] == var:
                            ds = view_defs.get(m['ty'])
                            dk = ds[0]['k'] if ds else None
                    if dk == kind:
                        yield o, var, op, en

        def missing_enumerator():
            for o, var, op, en in if_sites('enum'):
                nt = self.mutate_block(o, lambda b: sub_in(b, r'\(\s*%s\s*==\s*%s\b' % (var, en), '(%s == NO_SUCH_ENUMERATOR_VERIF' % var))
                if nt:
                    yield ('missing enumerator', 'MISSING_ENUMERATOR', self.site_kind(o, 'if'), o, nt)

        def enum_and():
            for o, var, op, en in if_sites('enum', single=True):
                if op != '==':
                    continue
                nt = self.mutate_block(o, lambda b: sub_in(b, r'\(\s*%s\s*==\s*%s\b' % (var, en), '(%s & %s' % (var, en)))
                if nt:
                    yield ("'&' on an enum", 'ENUM_HAS_BITWISE_AND', self.site_kind(o, 'if'), o, nt)

        def flag_eq():
            for o, var, op, en in if_sites('flag', single=True):
                nt = self.mutate_block(o, lambda b: sub_in(b, r'\(\s*%s\s*&\s*%s\b' % (var, en), '(%s == %s' % (var, en)))
                if nt:
                    yield ("'==' on a flag", 'FLAG_HAS_EQUALS', self.site_kind(o, 'if'), o, nt)

        def no_version():
            for o in objs:
                if self.has_tag_all(o['file']):
                    continue
                if self.c.tag(o, 'versions') and not self.c.tag(o, 'paste_versions'):
                    def strip(b):
                        nb = sub_in(b, r'\bversions\s*=\s*"[^"]*"\s*;', '')
                        if nb is None:
                            return None
                        return re.sub(r'\}\s*\{\s*\}\s*$', '}', nb)      # an empty tag block is a syntax error, not a missing version
                    nt = self.mutate_block(o, strip)
                    if nt:
                        yield ('no version', 'NO_VERSIONS', self.site_kind(o), o, nt)

        def both_versions():
            for o in objs:
                if self.c.tag(o, 'versions') and not self.has_tag_all(o['file']):
                    nt = self.mutate_block(o, lambda b: sub_in(b, r'\bversions\s*=\s*"', 'login_versions = "2";\n    versions = "'))
                    if nt:
                        yield ('both kinds of version', 'BOTH_LOGIN_AND_WORLD_VERSIONS', self.site_kind(o), o, nt)

        def overlapping():
            for o in objs:
                if o['k'] in ('enum', 'flag', 'struct') and (self.c.tag(o, 'versions') or self.c.tag(o, 'login_versions')):
                    t = self.src(o['file'])
                    try:
                        a, b = obj_span(t, o['line'])
                    except ValueError:
                        continue
                    yield ('overlapping versions of one name', 'OVERLAPPING_VERSIONS', self.site_kind(o), o, t + '\n' + t[a:b] + '\n')

        def duplicate_field():
            for o in conts:
                for ctx, m in decls(o['members']):
                    if m['ty'] in INT and m['arr'] is None and m['val'] is None:
                        pat = r'(\b%s\s+%s\s*;)' % (re.escape(m['ty']), re.escape(m['name']))
                        nt = self.mutate_block(o, lambda b: sub_in(b, pat, r'\1\n    %s %s;' % (m['ty'], m['name'])))
                        if nt:
                            yield ('duplicate field names', 'DUPLICATE_FIELD_NAMES', self.site_kind(o, ctx), o, nt)
                        break

        def duplicate_value():
            for o in defs:
                if o['k'] == 'enum' and len(o['fields']) >= 2:
                    f0, f1 = o['fields'][0], o['fields'][1]
                    nt = self.mutate_block(o, lambda b: sub_in(b, r'\b%s\s*=\s*%s\s*;' % (re.escape(f1['name']), re.escape(f1['raw'])), '%s = %s;' % (f1['name'], f0['raw'])))
                    if nt:
                        yield ('duplicate enumerator values', 'DUPLICATE_DEFINER_VALUES', self.site_kind(o), o, nt)

        def invalid_value():
            for o in defs:
                if o['fields']:
                    f0 = o['fields'][0]
                    nt = self.mutate_block(o, lambda b: sub_in(b, r'\b%s\s*=\s*%s\s*;' % (re.escape(f0['name']), re.escape(f0['raw'])), '%s = asdf;' % f0['name']))
                    if nt:
                        yield ('invalid enumerator value', 'INVALID_DEFINER_VALUE', self.site_kind(o), o, nt)

        def invalid_base():
            for o in defs:
                nt = self.mutate_block(o, lambda b: sub_in(b, r'(\b(?:enum|flag)\s+%s\s*:\s*)\w+' % re.escape(o['name']), r'\1CString'))
                if nt:
                    yield ('invalid base integer type', 'INVALID_INTEGER_TYPE', self.site_kind(o), o, nt)

        def mismatched_if():
            for o in conts:
                dv = [(m['name'], m['ty']) for ctx, m in decls(o['members']) if ctx == 'top' and view_defs.get(m['ty']) and view_defs[m['ty']][0]['k'] == 'enum']
                for st in ifs(o['members']):
                    var, op, en = st['branches'][0][0][0]
                    other = [(n, t) for n, t in dv if n != var]
                    if op == '==' and other:
                        on, ot = other[0]
                        oen = view_defs[ot][0]['fields'][0]['name']
                        nt = self.mutate_block(o, lambda b: sub_in(b, r'\(\s*%s\s*==\s*%s\b' % (var, en), '(%s == %s || %s == %s' % (var, en, on, oen)))
                        if nt:
                            yield ('mismatched if-variables', 'NON_MATCHING_IF_VARIABLES', self.site_kind(o, 'if'), o, nt)
                        break

        def upcast():
            for o in conts:
                for ctx, m in decls(o['members']):
                    if m['ty'] == 'u32' and m['arr'] is None and m['val'] is None and m['up'] is None:
                        nt = self.mutate_block(o, lambda b: sub_in(b, r'\bu32\s+%s\s*;' % re.escape(m['name']), '(u64)u32 %s;' % m['name']))
                        if nt:
                            yield ('unsupported upcast', 'UNSUPPORTED_UPCAST', self.site_kind(o, ctx), o, nt)
                        break

        def self_size():
            for o in conts:
                if o['k'] == 'struct':
                    continue
                ds = decls(o['members'])
                tops = [m for ctx, m in ds if ctx == 'top']
                last_is_decl = o['members'] and o['members'][-1]['k'] == 'decl'
                variable_before = any(m['k'] in ('if', 'optional') or (m['k'] == 'decl' and (m['ty'] in ('CString', 'String', 'SizedCString', 'PackedGuid') or (m['arr'] is not None and not re.fullmatch(r'\d+', m['arr'])))) for m in o['members'][:-1])
                if last_is_decl and variable_before and len(tops) >= 2 and tops[-1] is o['members'][-1] and tops[-1]['ty'] in ('u8', 'u16', 'u32') and tops[-1]['val'] is None and tops[-1]['arr'] is None and not any(m['val'] == 'self.size' for _, m in ds):
                    m = tops[-1]
                    used = any(x['arr'] == m['name'] for _, x in ds)
                    if used:
                        continue
                    nt = self.mutate_block(o, lambda b: sub_in(b, r'\b%s\s+%s\s*;' % (m['ty'], re.escape(m['name'])), '%s %s = self.size;' % (m['ty'], m['name'])))
                    if nt:
                        yield ('misplaced self.size', 'INVALID_SELF_SIZE', self.site_kind(o), o, nt)

        def opcode():
            for o in conts:
                if o['k'] in ('cmsg', 'smsg') and o['name'] not in self.tested and o['opcode'] is not None and (self.c.tag(o, 'versions') or self.has_tag_all(o['file'])):
                    nt = self.mutate_block(o, lambda b: sub_in(b, r'(\b%s\s*=\s*)0x[0-9A-Fa-f]+' % re.escape(o['name']), r'\g<1>0x1337'))
                    if nt:
                        yield ('message opcode not matching the opcode index', 'INCORRECT_OPCODE_FOR_MESSAGE', self.site_kind(o), o, nt)

        def not_in_index():
            for o in conts:
                if o['k'] in ('cmsg', 'smsg') and o['name'] not in self.tested and o['opcode'] is not None:
                    t = self.src(o['file'])
                    if len(re.findall(r'\b%s\b' % re.escape(o['name']), t)) != len([x for x in self.c.objects if x['name'] == o['name'] and x['file'] == o['file']]):
                        continue
                    nt = self.mutate_block(o, lambda b: sub_in(b, r'\b%s\s*=\s*0x[0-9A-Fa-f]+' % re.escape(o['name']), '%s_VERIF = 0x1337' % o['name']))
                    if nt:
                        yield ('message name not in the opcode index', 'MESSAGE_NOT_IN_INDEX', self.site_kind(o), o, nt)

        gens = [unknown_type, partial_type, recursive, missing_enumerator, enum_and, flag_eq, no_version, both_versions, overlapping, duplicate_field, duplicate_value, invalid_value,
                invalid_base, mismatched_if, upcast, self_size, opcode, not_in_index]
        for g in gens:
            for item in spread(g(), per_rule):
                yield item


def exit_codes(scratch):
    t = open(os.path.join(scratch, 'wow_message_parser', 'src', 'error_printer', 'mod.rs')).read()
    return {m.group(1): int(m.group(2)) for m in re.finditer(r'const (\w+): i32 = (\d+);', t)}


def run_generator(exe, scratch):
    r = sh([exe], cwd=scratch, timeout=600)
    return r.returncode, (r.stdout or '')[-600:]


# ------------------------------------------------------------------------------------------- (A) version relations
def run(tier, only=None):
    ck = Check(PROP, tier, 'model_checking')
    sd = seed()
    scratch, out, rc = gen.regenerate()
    nq = ninj = 0
    try:
        if rc != 0:
            ck.violation('clean-tree', 'the unmodified tree is not accepted: the generator exits with status %d: %s' % (rc, out[-300:]), {'rc': rc})
            return ck.finish({'states': 1, 'transitions': 1, 'traces_validated_against_impl': 0})
        # ---- (A)
        if not only or only == 'A':
            try:
                from . import c16a
                nq = c16a.check(ck, scratch)
            except Exception as e:
                import traceback
                ck.inconclusive.append('version relations: %s' % traceback.format_exc()[-400:])
        # ---- (B)
        if not only or only != 'A':
            codes = exit_codes(scratch)
            wroot = os.path.join(scratch, 'wow_message_parser', 'wowm')
            corpus = wowm.Corpus(wroot)
            inj = Injector(corpus, wroot)
            rng = random.Random(sd * 31 + 7)
            exe = os.path.join(gen.TARGET, 'release', 'wow_message_parser')
            per_rule = 3 if tier == 'quick' else 12
            by_rule = {}
            for rule, const, site, o, newtext in inj.candidates(rng, per_rule):
                if only and only not in ('B',) and only.lower() not in rule:
                    continue
                p = os.path.join(wroot, o['file'])
                orig = open(p).read()
                open(p, 'w').write(newtext)
                try:
                    got, tail = run_generator(exe, scratch)
                finally:
                    open(p, 'w').write(orig)
                ninj += 1
                want = codes.get(const)
                by_rule.setdefault(rule, []).append('%s:%s %s -> %d' % (o['file'], o['name'], site, got))
                if got != want:
                    key = 'inject/%s/%s/%s' % (re.sub(r'\W+', '-', rule), o['name'], site)
                    ck.violation(key, 'rule "%s" violated in %s (%s:%d, site %s): the generator %s, expected exit status %s (%s)' % (
                        rule, o['name'], o['file'], o['line'], site, 'accepts the tree' if got == 0 else 'stops with status %d' % got, want, const),
                        {'rule': rule, 'file': o['file'], 'object': o['name'], 'site': site, 'got': got, 'expected': want, 'output_tail': tail, 'mutated_file': newtext[:4000]}, confirmed=True)
            for rule, lst in by_rule.items():
                ck.sample({'rule': rule, 'injections': lst[:4]}, cap=40)
        ck.assume('(A) is the solver-decided part: both arguments of the version relations are fully symbolic; the reference is the set semantics (a version denotes the builds it matches), quantified over all builds (8/8/8/16-bit components) by z3')
        ck.assume('(B) is fault injection, not a solver claim: %d mutated trees were run through the real generator binary; sites are chosen with VERIF_SEED; rules whose diagnostics exist only as panics without an exit status of their own are not injected' % ninj)
        return ck.finish({'states': max(ninj, 1), 'transitions': max(nq, 1), 'traces_validated_against_impl': ninj, 'injections': ninj, 'solver_queries': nq,
                          'rule': '(A) MIR of overlaps/covers/fullfills == set semantics for all pairs of versions (z3); (B) every injected violation stops the generator with its rule\'s exit status, the clean tree exits 0'}, fail_on_inconclusive=False)
    finally:
        gen.cleanup()


def replay(path):
    print(open(path).read()[:2500])
    print('VIOLATION property=%s replay=%s' % (PROP, path))
    return 1
