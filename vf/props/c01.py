"""C01 - every message decodes from and re-encodes to the bytes its wowm definition says.
MIRSYM executes the real read_inner -> write_into_vec -> size of every message on the canonical encoding produced by
the independent reader, one query set per (message, shape), all field values symbolic."""
import json
import multiprocessing as mp
import os
import re
import time
import traceback
import z3
from ..common import Check, log, NCPU, seed
from .. import wowm, messages, encode, native
from ..codec import CodecRunner, Finding
from ..mirsym import Unsupported

PROP = 'C01'


def frame_bytes(kind, cont, view, body):
    """full wire frame for the native replay: world header (unencrypted) or login opcode + body"""
    if kind == 'login':
        return [cont['opcode'] & 0xFF] + list(body)
    op = cont['opcode']
    if cont['k'] == 'smsg':
        size = len(body) + 2
        if view['exp'] == 'wrath' and size > 0x7FFF:
            return [0x80 | (size >> 16), (size >> 8) & 0xFF, size & 0xFF, op & 0xFF, (op >> 8) & 0xFF] + list(body)
        return [(size >> 8) & 0xFF, size & 0xFF, op & 0xFF, (op >> 8) & 0xFF] + list(body)
    size = len(body) + 4
    return [(size >> 8) & 0xFF, size & 0xFF, op & 0xFF, (op >> 8) & 0xFF, (op >> 16) & 0xFF, (op >> 24) & 0xFF] + list(body)


def rust_replay(kind, cont, view, path, frame):
    """Rust expression (String) decoding `frame` through the public API and re-encoding it"""
    bs = ', '.join(str(b) for b in frame)
    hexf = 'fn hx(v: &[u8]) -> String { v.iter().map(|b| format!("{:02x}", b)).collect::<Vec<_>>().join("") }'
    if kind == 'login':
        side = 'Client' if cont['k'] == 'clogin' else 'Server'
        fn = 'expect_client_message' if cont['k'] == 'clogin' else 'expect_server_message'
        return ('{ %s let bytes: Vec<u8> = vec![%s]; let mut r = &bytes[..]; match wow_login_messages::helper::%s::<%s, _>(&mut r) { '
                'Ok(m) => { use wow_login_messages::Message; let mut v = Vec::new(); m.write(&mut v).unwrap(); format!("OK {} left={}", hx(&v), r.len()) } Err(e) => format!("ERR {:?}", e) } }') % (hexf, bs, fn, path)
    exp = view['exp']
    if cont['k'] == 'smsg':
        enum, wr = 'ServerOpcodeMessage', 'write_unencrypted_server'
    else:
        enum, wr = 'ClientOpcodeMessage', 'write_unencrypted_client'
    return ('{ %s let bytes: Vec<u8> = vec![%s]; let mut r = &bytes[..]; match wow_world_messages::%s::opcodes::%s::read_unencrypted(&mut r) { '
            'Ok(m) => { let mut v = Vec::new(); m.%s(&mut v).unwrap(); format!("OK {} left={}", hx(&v), r.len()) } Err(e) => format!("ERR {:?}", e) } }') % (hexf, bs, exp, enum, wr)


def check_message(R, corpus, view, cont, path, fns, bounds, kind, sd):
    res = {'path': path, 'shapes': 0, 'vacuous': 0, 'findings': [], 'inc': [], 'paths': 0, 'file': cont['file'], 'maxlen': 0}
    missing = [k for k in ('read', 'write') + (('size',) if kind == 'world' else ()) if k not in fns]
    if missing:
        res['inc'].append('%s: codec functions not found in the dump: %s' % (path, missing))
        return res
    if corpus.tag(cont, 'compressed') is not None:
        res['inc'].append('%s: unsupported: compressed message' % path)
        return res
    try:
        for enc, ch in encode.shapes(corpus, view, cont, bounds, sd):
            label = ';'.join('%s=%d' % (l.split('.', 1)[-1], c) for l, n, c in ch.seen)
            try:
                findings, stats = R.roundtrip(enc, fns, kind, opcode=cont.get('opcode'))
            except Unsupported as e:
                res['inc'].append('%s [%s]: %s' % (path, label[:80], str(e)[:300]))
                break
            if findings is None:
                res['vacuous'] += 1
                continue
            res['shapes'] += 1
            res['paths'] += stats['paths']
            res['maxlen'] = max(res['maxlen'], stats['len'])
            seenk = set()
            for f in findings:
                f.shape = label
                if f.kind in seenk:
                    continue
                seenk.add(f.kind)
                res['findings'].append({'kind': f.kind, 'what': f.what, 'body': f.bytes, 'shape': label, 'detail': f.detail})
            if findings:
                break   # one counterexample per message is enough
    except encode.NotSupported as e:
        res['inc'].append('%s: unsupported by the reader: %s' % (path, e))
    # translator validation: the repository's own test vectors of this message through the same interpreter
    # (the real code passes them in the baseline suite: a disagreement here is an engine fault, not a finding)
    res['vectors'] = 0
    try:
        if not res['findings'] and corpus.tag(cont, 'compressed') is None:
            for t in view['tests']:
                if t['name'] != cont['name']:
                    continue
                bs = list(t['bytes'])
                hl = 1 if kind == 'login' else (6 if cont['k'] == 'cmsg' else (5 if (bs and bs[0] & 0x80 and view.get('exp') == 'wrath') else 4))
                if cont['k'] == 'msg':
                    continue
                body = bs[hl:]
                e = encode.Encoding()
                e.bytes = [z3.BitVecVal(b, 8) for b in body]
                try:
                    findings, stats = R.roundtrip(e, fns, kind, opcode=cont.get('opcode'))
                except Unsupported:
                    continue
                if findings is None:
                    continue
                if findings:
                    res['inc'].append('%s: ENGINE: the interpreter does not reproduce the repository\'s own test vector (%s: %s)' % (path, findings[0].kind, findings[0].what[:120]))
                else:
                    res['vectors'] += 1
    except Exception:
        pass
    return res


def worker(job):
    dump, kind, tier, sd, idxs = job
    corpus = wowm.Corpus()
    targets = messages.world_targets(corpus) if kind == 'world' else messages.login_targets(corpus)
    R = CodecRunner(dump)
    from ..inventory import Inventory
    inv = Inventory(R.prog)
    # type ids: recompute from local fns
    lib = open(os.path.join(os.path.dirname(dump), 'src', 'lib.rs')).read().splitlines()
    import re
    item_fn = {}
    for line in lib:
        m = re.search(r'pub fn (\w+)\(.*/\*ITEM:(.*?)\*/', line)
        if m:
            item_fn[m.group(2)] = m.group(1)
    bounds = encode.Bounds(tier)
    out = []
    for i in idxs:
        view, cont, path = targets[i]
        t0 = time.time()
        fn = item_fn.get('ty|' + path)
        ty = None
        if fn:
            t = inv.type_of_local_arg(fn, 0)
            if t is not None:
                ty = R.prog.tk(t)['Ref'][1]
        if ty is None:
            out.append({'path': path, 'shapes': 0, 'vacuous': 0, 'findings': [], 'inc': ['%s: type not found' % path], 'paths': 0, 'file': cont['file'], 'maxlen': 0, 'secs': 0})
            continue
        fns = messages.codec_fns(inv, ty, kind)
        try:
            r = check_message(R, corpus, view, cont, path, fns, bounds, kind, sd)
        except Exception:
            r = {'path': path, 'shapes': 0, 'vacuous': 0, 'findings': [], 'inc': ['%s: checker exception %s' % (path, traceback.format_exc()[-600:])], 'paths': 0, 'file': cont['file'], 'maxlen': 0}
        r['secs'] = time.time() - t0
        r['idx'] = i
        out.append(r)
    return out, R.queries, R.solver_s, R.ex.stats, sorted(R.ex.fns_reached)


def run(tier, only=None, prop=PROP):
    ck = Check(prop, tier, 'model_checking')
    corpus = wowm.Corpus()
    sd = seed()
    tot = {'messages': 0, 'shapes': 0, 'paths': 0, 'queries': 0, 'solver_s': 0.0, 'vacuous': 0}
    fn_names = set()
    pending = []
    bounds = encode.Bounds(tier)
    for kind in ('login', 'world'):
        prog, inv, res, dropped = messages.build(kind, corpus)
        for k, why in dropped.items():
            ck.violation(k[3:] + '/type', 'message type not reachable through its public path: ' + why, {'path': k[3:], 'error': why})
        targets = messages.world_targets(corpus) if kind == 'world' else messages.login_targets(corpus)
        idxs = [i for i, (v, c, p) in enumerate(targets) if not only or (re.search(only, p) if '|' in only else only in p)]
        if not idxs:
            continue
        nproc = min(NCPU, len(idxs))
        # interleave so that each worker gets a mix of cheap and expensive messages
        chunks = [idxs[j::nproc * 4] for j in range(nproc * 4)]
        chunks = [c for c in chunks if c]
        with mp.Pool(nproc) as pool:
            results = pool.map(worker, [(prog.path, kind, tier, sd, c) for c in chunks], chunksize=1)
        for out, q, ss, stats, fns in results:
            tot['queries'] += q
            tot['solver_s'] += ss + stats.get('solver_s', 0)
            fn_names.update(fns)
            for r in out:
                tot['messages'] += 1
                tot['shapes'] += r['shapes']
                tot['paths'] += r['paths']
                tot['vacuous'] += r['vacuous']
                tot['vectors'] = tot.get('vectors', 0) + r.get('vectors', 0)
                ck.inconclusive.extend(r['inc'])
                if r['shapes'] and len(ck.cov['samples']) < 8 and r['shapes'] > 1:
                    ck.sample({'message': r['path'], 'wowm_file': r['file'], 'shapes': r['shapes'], 'mir_paths': r['paths'], 'max_encoding_len': r['maxlen'], 'secs': round(r['secs'], 2)})
                for f in r['findings']:
                    view, cont, path = targets[r['idx']]
                    pending.append((kind, view, cont, path, f))
    # native replay
    by_kind = {}
    for kind, view, cont, path, f in pending:
        by_kind.setdefault(kind, []).append((view, cont, path, f))
    for kind, lst in by_kind.items():
        cases = []
        for view, cont, path, f in lst:
            key = '%s/%s' % (path, f['kind'])
            if f['body'] is None or ck.known.match(prop, key) is not None:
                continue
            frame = frame_bytes(kind, cont, view, f['body'])
            f['frame'] = frame
            f['rust'] = rust_replay(kind, cont, view, path, frame)
            cases.append((key + '#' + str(len(cases)), f['rust']))
            f['case'] = cases[-1][0]
        outs = {}
        if cases:
            try:
                outs = native.eval_cases('world' if kind == 'world' else 'login', cases)
            except Exception as e:
                ck.inconclusive.append('native replay failed to build: %s' % str(e)[-400:])
        for view, cont, path, f in lst:
            key = '%s/%s' % (path, f['kind'])
            o = outs.get(f.get('case'))
            f['native'] = o
            confirmed = native_confirms(f, o)
            ck.violation(key, '%s [shape %s] native=%r' % (f['what'], f['shape'][:100], o), dict(f, message=path, kind_of_message=kind), confirmed=confirmed)
    ck.assume('canonical domain: vf/encode.py (Bool in {0,1}; enum fields in their declared set at wire width; strings non-zero valid UTF-8; packed guid in writer-canonical form; DateTime words calendar-valid; Level16/Level32 <= 255)')
    ck.assume('std models: ' + ', '.join(sorted(n for n in fn_names if n.split('::')[0] in ('std', 'core', 'alloc') and '<' not in n.split('::')[0])[:30]))
    ck.assume('bounds: %s' % json.dumps(bounds.describe()))
    return ck.finish({'states': max(tot['shapes'], 1), 'transitions': max(tot['paths'], 1), 'traces_validated_against_impl': len(pending) + tot.get('vectors', 0), 'repository_test_vectors_reproduced_by_the_interpreter': tot.get('vectors', 0),
                      'messages': tot['messages'], 'shapes': tot['shapes'], 'vacuous_shapes_skipped': tot['vacuous'], 'queries': tot['queries'],
                      'solver_s': round(tot['solver_s'], 1), 'functions_encoded_count': len(fn_names), 'functions_encoded': sorted(fn_names)[:80],
                      'bounds': bounds.describe(),
                      'rule': 'per (message, shape): read_inner on the canonical encoding must return Ok on every feasible path, write_into_vec of the result must equal the encoding byte for byte, size must equal its length'},
                     fail_on_inconclusive=False)


def native_confirms(f, o):
    if not o or o[0] is None:
        return False
    frame = f.get('frame')
    want = ''.join('%02x' % b for b in frame)
    for out in o:
        if out is None:
            continue
        if out.startswith('PANIC') or out.startswith('ERR'):
            return True
        if out.startswith('OK '):
            got = out.split()[1]
            if got != want:
                return True
    return False


def replay(path):
    j = json.load(open(path))
    if not j.get('rust'):
        print(j.get('what'))
        return 1
    dep = 'login' if j.get('kind_of_message') == 'login' else 'world'
    o = native.eval_cases(dep, [('x', j['rust'])])['x']
    print('native:', o)
    if native_confirms(j, o):
        print('VIOLATION property=%s replay=%s' % (j.get('property', PROP), path))
        return 1
    return 0
