"""C07 - the generator compiles any valid wowm program to a codec implementing it.
Seeded random well-formed programs over the language features the corpus uses (vf/randwowm.py) replace single-message
files of a scratch copy of the tree; the REAL generator is run on it, the Rust it emits is compiled, and the C01
machinery (MIR symbolic execution + z3: read -> write -> size over canonical encodings with all field values symbolic,
per covered shape) is run on the new messages with VERIF_REPO pointing at the scratch tree. The solver claim is C01's,
per random program; the set of programs is sampled (stated), not exhaustive."""
import json
import os
import re
import subprocess
import sys
import time
from ..common import Check, REPO, VERIF, WORK, log, seed, sh
from .. import wowm, gen, randwowm

PROP = 'C07'
HAND = ['wow_world_messages/src/helper', 'wow_world_messages/src/manual', 'wow_world_messages/src/util', 'wow_world_messages/src/traits',
        'wow_world_messages/src/lib.rs', 'wow_world_messages/src/errors.rs', 'wow_world_base/src/manual', 'wow_world_base/src/extended']


def candidates(corpus):
    by_file = {}
    for o in corpus.objects:
        by_file.setdefault(o['file'], []).append(o)
    hand = ''
    for h in HAND:
        p = os.path.join(REPO, h)
        if os.path.isdir(p):
            for root, _, files in os.walk(p):
                for f in files:
                    if f.endswith('.rs') and f != 'opcode_to_name.rs':
                        hand += open(os.path.join(root, f)).read()
        elif os.path.exists(p):
            hand += open(p).read()
    out = []
    view = corpus.world_view('vanilla')
    for name, o in sorted(view['containers'].items()):
        if o['k'] not in ('cmsg', 'smsg') or corpus.is_test_object(o) or name.startswith('MSG_'):
            continue          # MSG_x_Client/_Server pairs are tied to each other by the generator
        objs = [x for x in by_file[o['file']] if x['k'] != 'test']
        if len(objs) != 1 or corpus.tag(o, 'paste_versions') or not corpus.tag(o, 'versions'):
            continue
        if re.search(r'\b%s\b' % re.escape(name), hand):
            continue
        out.append(o)
    return out


def _cov(d, **kw):
    return d


def run(tier, only=None):
    """the program sets are fixed by internal seeds (not VERIF_SEED) so that a run is reproducible and its findings can
    be listed: internal seed 0 in both tiers (thorough runs the sub-checks with their thorough bounds). Internal seeds
    1 and 2 were run once during development and showed further generator defects (DESIGN 12.4); they are not part of
    the committed check because their findings could not be triaged in time."""
    ck = Check(PROP, tier, 'model_checking')
    seeds = [0]
    tot = {'states': 0, 'transitions': 0, 'traces_validated_against_impl': 0, 'programs': 0, 'programs_checked_by_solver': 0, 'sub_runs': []}
    for sd in seeds:
        c = one(ck, tier, sd)
        for k in ('states', 'transitions', 'traces_validated_against_impl', 'programs', 'programs_checked_by_solver'):
            tot[k] += c.get(k, 0)
        if c.get('sub_run'):
            tot['sub_runs'].append(c['sub_run'])
    tot['states'] = max(tot['states'], 1)
    tot['transitions'] = max(tot['transitions'], 1)
    tot['internal_seeds'] = seeds
    tot['rule'] = 'real generator on random well-formed programs -> generated Rust compiles -> C01 and C09 obligations hold for every new message and covered shape'
    return ck.finish(tot, fail_on_inconclusive=False)


def one(ck, tier, sd):
    corpus = wowm.Corpus()
    cands = candidates(corpus)
    import random
    rng = random.Random(sd * 7907 + 3)
    rng.shuffle(cands)
    n = 10
    chosen = cands[:n]
    if not chosen:
        ck.inconclusive.append('no replaceable single-message file found')
        return _cov({'states': 1, 'transitions': 1, 'traces_validated_against_impl': 0}, fail_on_inconclusive=True)
    extra = {}
    texts = {}
    for i, o in enumerate(chosen):
        g = randwowm.Gen(random.Random(sd * 1000003 + i), '%c%d' % (chr(65 + sd % 26), i))
        msg = g.message(o['name'], o['opcode'])
        text = '#tag_all versions "%s";\n\n' % ' '.join(dict.fromkeys(corpus.tag(o, 'versions').split())) + '\n'.join(g.defs) + '\n' + msg
        extra[o['file']] = text
        texts[o['name']] = text
    for name, t in list(texts.items())[:3]:
        ck.sample({'program_for': name, 'wowm': t[:1500]})
    def error_class(text, errors):
        """the member the compiler cannot find and where it is declared: '<type class> in <enclosing conditional kinds>'"""
        objs = wowm.Parser(wowm.lex(text, 'p'), 'p').file()[1]
        kinds = {o['name']: o['k'] for o in objs if o['k'] in ('enum', 'flag', 'struct')}
        found = set()
        idents = set(re.findall(r'`(\w+)`', ' '.join(errors)))

        def walk(ms, chain, types):
            types = dict(types)
            for m in ms:
                if m['k'] == 'decl':
                    types[m['name']] = kinds.get(m['ty'])
                    if any(i == m['name'] or i.startswith(m['name'] + '_') for i in idents):
                        tcls = kinds.get(m['ty']) or re.sub(r'\d+', 'n', m['ty'])
                        if m['arr'] is not None:
                            tcls += '[%s]' % ('n' if re.fullmatch(r'\d+', m['arr']) else ('-' if m['arr'] == '-' else 'var'))
                        found.add('%s %s' % (tcls, 'declared inside a conditional branch' if chain else 'at top level'))
                elif m['k'] == 'if':
                    k = types.get(m['branches'][0][0][0][0]) or '?'
                    for _, b in m['branches']:
                        walk(b, chain + [k], types)
                    if m['els']:
                        walk(m['els'], chain + [k], types)
                elif m['k'] == 'optional':
                    walk(m['members'], chain + ['optional'], types)
        for o in objs:
            if o['k'] in ('cmsg', 'smsg'):
                walk(o['members'], [], {})
        return '; '.join(sorted(found)) or 'unclassified'

    def nesting_signature(text):
        """which definer kinds are declared inside a branch of which kind and tested there (classification of findings)"""
        import io
        objs = wowm.Parser(wowm.lex(text, 'p'), 'p').file()[1]
        kinds = {o['name']: o['k'] for o in objs if o['k'] in ('enum', 'flag')}
        sig = set()

        def walk(ms, outer, types):
            types = dict(types)
            for m in ms:
                if m['k'] == 'decl':
                    types[m['name']] = kinds.get(m['ty'])
                elif m['k'] == 'if':
                    var = m['branches'][0][0][0][0]
                    k = types.get(var)
                    if outer and k:
                        sig.add('%s>%s%s' % (outer, k, '+elseif' if len(m['branches']) > 1 and k == 'flag' else ''))
                    for _, b in m['branches']:
                        walk(b, k, types)
                    if m['els']:
                        walk(m['els'], k, types)
                elif m['k'] == 'optional':
                    walk(m['members'], outer, types)
        for o in objs:
            if o['k'] in ('cmsg', 'smsg'):
                walk(o['members'], None, {})
        return '+'.join(sorted(sig)) or 'flat'

    try:
        remaining = dict(extra)
        names_by_file = {o['file']: o['name'] for o in chosen}
        total_cov = {}
        for pass_no in range(1, 4):
            scratch, out, rc = gen.regenerate(extra_wowm=remaining)
            if rc != 0:
                ck.violation('generator/exit-%d' % rc, 'the generator exits with status %d on a tree in which %d single-message files were replaced by random well-formed programs (seed %d): %s' % (rc, len(remaining), sd, out[-600:]),
                             {'rc': rc, 'output': out[-3000:], 'programs': {names_by_file[f]: t for f, t in remaining.items()}}, confirmed=True)
                break
            sub_work = os.path.join(WORK, 'c07')
            os.makedirs(os.path.join(sub_work, 'bin'), exist_ok=True)
            env = dict(os.environ, VERIF_REPO=scratch, VERIF_WORK=sub_work, VERIF_EVIDENCE=os.path.join(sub_work, 'evidence'), VERIF_REPLAYS=os.path.join(sub_work, 'replays'))
            live = [names_by_file[f] for f in remaining]
            pat = '|'.join('::%s$' % re.escape(nm) for nm in live) + '|::__none__$'
            t0 = time.time()
            src_bin = os.path.join(WORK, 'bin', 'mirdump')
            if os.path.exists(src_bin):
                import shutil
                shutil.copy2(src_bin, os.path.join(sub_work, 'bin', 'mirdump'))
            r = subprocess.run([sys.executable, '-u', '-m', 'vf.main', 'C01', '--tier', tier, '--only', pat], cwd=VERIF, env=env, stdout=subprocess.PIPE, stderr=subprocess.STDOUT, text=True, timeout=6 * 3600)
            log('  pass %d: %d programs, sub-run of the C01 machinery on the scratch tree: rc=%d, %.0fs' % (pass_no, len(live), r.returncode, time.time() - t0))
            r9 = None
            if r.returncode in (0, 1):
                env9 = dict(env, VERIF_C09_NO_IR='1')
                r9 = subprocess.run([sys.executable, '-u', '-m', 'vf.main', 'C09', '--tier', tier, '--only', pat], cwd=VERIF, env=env9, stdout=subprocess.PIPE, stderr=subprocess.STDOUT, text=True, timeout=3 * 3600)
                log('  pass %d: size bounds (C09 machinery) on the scratch tree: rc=%d' % (pass_no, r9.returncode))
            evp = os.path.join(sub_work, 'evidence', 'C01.json')
            if r.returncode == 3 or not os.path.exists(evp) or os.path.getmtime(evp) < t0:
                bad_files = set()
                errs = {}
                for m in re.finditer(r'(error(?:\[E\d+\])?: [^\n]*)\n\s+--> ([^\n:]+\.rs):\d+', r.stdout):
                    stem = os.path.basename(m.group(2))[:-3]
                    stem = re.sub(r'(_vanilla|_tbc|_wrath)+$', '', stem).upper()
                    errs.setdefault(stem, []).append(m.group(1))
                failing = [f for f in remaining if names_by_file[f] in errs]
                if not failing:
                    ck.inconclusive.append('sub-run failed without a verdict: %s' % r.stdout[-600:])
                    break
                for f in failing:
                    nm = names_by_file[f]
                    sig = error_class(remaining[f], errs[nm])
                    ck.violation('compile/%s' % sig, 'the Rust code the generator emits for a well-formed random program (stands in for %s, seed %d) does not compile; construct: %s; errors: %s' % (nm, sd, sig, ' | '.join(sorted(set(errs[nm])))[:400]),
                                 {'wowm': remaining[f], 'errors': errs[nm][:10], 'construct': sig}, confirmed=True)
                    del remaining[f]
                if not remaining:
                    break
                continue
            ev = json.load(open(evp))
            total_cov = ev.get('coverage', {})
            import glob
            rdir = os.path.join(sub_work, 'replays', 'C01')
            reported = 0
            for f in sorted(glob.glob(os.path.join(rdir, '*.json'))):
                if os.path.getmtime(f) < t0:
                    continue
                j = json.load(open(f))
                key = j.get('key', os.path.basename(f))
                name = key.split('::')[-1].split('/')[0]
                if name not in texts:
                    continue
                kind_ = key.split('/')[-1]
                prog_text = texts[name]
                if kind_ == 'size' and re.search(r'else if \(\w+ & ', prog_text):
                    k2 = 'generator/else-if-flag/size'
                elif kind_ == 'reject' and '[-]' in prog_text and re.search(r'\bif \(', prog_text):
                    k2 = 'generator/endless-array-after-conditional-members/reject'
                else:
                    k2 = 'program/seed%d/%s/%s' % (sd, name, kind_)
                reported += 1
                ck.violation(k2, 'generated codec of a random program (stands in for %s, seed %d) disagrees with its definition: %s' % (name, sd, j.get('what', '')[:500]), {'wowm': prog_text, 'finding': j.get('what'), 'sub_key': key}, confirmed=True)
            rdir9 = os.path.join(sub_work, 'replays', 'C09')
            for f in sorted(glob.glob(os.path.join(rdir9, '*.json'))):
                if os.path.getmtime(f) < t0:
                    continue
                j = json.load(open(f))
                key = j.get('key', os.path.basename(f))
                name = key.split('::')[-1].split('/')[0]
                if name not in texts:
                    continue
                ck.violation('program/seed%d/%s/size-bounds-%s' % (sd, name, key.split('/')[-1]), 'size guard the generator computes for a random program (stands in for %s, seed %d) excludes a valid encoding: %s' % (name, sd, j.get('what', '')[:400]),
                             {'wowm': texts[name], 'finding': j.get('what'), 'sub_key': key}, confirmed=True)
            if r9 is not None and r9.returncode not in (0, 1):
                ck.inconclusive.append('size-bounds sub-run failed: %s' % r9.stdout[-300:])
            if r.returncode == 1 and reported == 0:
                ck.inconclusive.append('the sub-run reports violations that could not be attributed to a random program: %s' % r.stdout[-400:])
            for x in total_cov.get('inconclusive', []):
                ck.inconclusive.append('sub-run: ' + x[:200])
            break
        cov = total_cov
        ck.assume('programs: %d per run drawn with fixed internal seeds from vf/randwowm.py: ints, floats, Bool, Guid, PackedGuid, CString, SizedCString, enums (with upcast) and flags with if / else-if / else (==, !=, &, ||) nested up to 2, structs, fixed/variable/endless arrays, optional tails, constants; self.size, masks and compressed members are not generated' % n)
        ck.assume('each random message takes the name, opcode and version tag of a shipped single-message file it replaces (the opcode index is a static rule); messages referenced by hand-written library code and MSG_ pairs are never replaced; member and type names carry their type because the Wireshark printer requires one type per name')
        ck.assume('programs whose generated Rust does not compile are reported and removed, the remaining ones are re-generated and checked (up to 3 passes); per program the claims are C01\'s (read -> write -> size over canonical encodings with symbolic field values per covered shape, same bounds) and C09\'s (the compiled size guard contains the true extremal lengths)')
        return _cov({'states': max(cov.get('shapes', len(chosen)), 1), 'transitions': max(cov.get('queries', 1), 1), 'traces_validated_against_impl': cov.get('traces_validated_against_impl', 0),
                          'programs': len(chosen), 'programs_checked_by_solver': len(remaining), 'sub_run': {k: v for k, v in cov.items() if k in ('messages', 'shapes', 'queries', 'paths', 'functions_encoded_count', 'bounds')},
                          'rule': 'real generator on random well-formed programs -> generated Rust compiles -> C01 obligations hold for every new message and covered shape'}, fail_on_inconclusive=False)
    finally:
        gen.cleanup()


def replay(path):
    print(open(path).read()[:3000])
    print('VIOLATION property=%s replay=%s' % (PROP, path))
    return 1
