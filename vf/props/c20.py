"""C20 - area-trigger containment and distance helpers match their geometric definition.
MIRSYM executes the MIR of geometry::is_within_square / distance_between / distance_2d / is_within_distance with all
positions and dimensions symbolic f32 (z3 floating-point theory, round-nearest-even) and sin/cos taken from the real
libm for each yaw of a stated set. Reference: the box-frame definition evaluated in FP64 with a margin (inside by more
than delta must be reported inside, outside by more than delta must be reported outside)."""
import glob
import json
import math
import os
import re
import struct
import time
import multiprocessing as mp
import z3
from ..common import Check, REPO, log, NCPU
from .. import mirdump, native
from ..mirsym import Prog, Exec, Agg, Unsupported, BV
from ..inventory import Inventory
from ..models import to_fp, from_fp

PROP = 'C20'
ITEMS = {
    'sq': 'pub fn c20_sq(p: wow_world_base::shared::vector3d_vanilla_tbc_wrath::Vector3d, s: wow_world_base::shared::vector3d_vanilla_tbc_wrath::Vector3d, l: f32, w: f32, h: f32, yaw: f32) -> bool { wow_world_base::geometry::is_within_square(p, s, l, w, h, yaw) }',
    'd3': 'pub fn c20_d3(a: wow_world_base::shared::vector3d_vanilla_tbc_wrath::Vector3d, b: wow_world_base::shared::vector3d_vanilla_tbc_wrath::Vector3d) -> f32 { wow_world_base::geometry::distance_between(a, b) }',
    'd2': 'pub fn c20_d2(a: wow_world_base::shared::vector2d_vanilla_tbc_wrath::Vector2d, b: wow_world_base::shared::vector2d_vanilla_tbc_wrath::Vector2d) -> f32 { wow_world_base::geometry::distance_2d(a, b) }',
    'wd': 'pub fn c20_wd(a: wow_world_base::shared::vector3d_vanilla_tbc_wrath::Vector3d, b: wow_world_base::shared::vector3d_vanilla_tbc_wrath::Vector3d, d: f32) -> bool { wow_world_base::geometry::is_within_distance(a, b, d) }',
}


def f32bits(x):
    return struct.unpack('<I', struct.pack('<f', x))[0]


def bits_f32(b):
    return struct.unpack('<f', struct.pack('<I', b))[0]


def table_yaws():
    ys = set()
    for f in glob.glob(os.path.join(REPO, 'wow_world_base/src/extended/*/trigger/*.rs')):
        for m in re.finditer(r'yaw:\s*(-?[0-9.]+(?:e-?\d+)?)', open(f).read()):
            ys.add(f32bits(float(m.group(1))))
    return sorted(ys)


F32 = z3.Float32()
F64 = z3.Float64()
RNE = z3.RNE()


def fv(name):
    return z3.BitVec(name, 32)


def in_range(bv, lo, hi):
    f = to_fp(bv)
    return z3.And(z3.Not(z3.fpIsNaN(f)), z3.Not(z3.fpIsInf(f)), z3.fpGEQ(f, z3.FPVal(lo, F32)), z3.fpLEQ(f, z3.FPVal(hi, F32)))


def d64(bv):
    return z3.fpFPToFP(RNE, to_fp(bv), F64)


from fractions import Fraction
from .. import models as M

DELTA = Fraction(1, 64)      # undecided band around the faces (yards)
TOL = Fraction(1, 100000)    # relative tolerance of the distance helpers


def rv(fr):
    return z3.RealVal(fr)


def sinf_native(bits):
    r = native.run('replay_base', ['sinf', bits])
    t = r.stdout.split()
    return int(t[1]), int(t[2])


def to_f32_bits(fr):
    return f32bits(float(fr))


def model_reals(m, rs):
    out = []
    for r in rs:
        v = m.eval(r, model_completion=True)
        out.append(Fraction(v.numerator_as_long(), v.denominator_as_long()) if z3.is_rational_value(v) else Fraction(v.approx(30).numerator_as_long(), v.approx(30).denominator_as_long()))
    return out


def square_job(job):
    """one yaw: MIR of is_within_square under the rounding-error semantics; linear real arithmetic"""
    dump, key, yawbits, timeout = job
    prog = Prog(dump)
    ex = Exec(prog)
    M.float_reset('err', 'abs')
    names = ('px', 'py', 'pz', 'sx', 'sy', 'sz', 'len', 'wid', 'hei')
    bvs, rs = zip(*[M.real_input(n) for n in names])
    px, py, pz, sx, sy, sz, L, W, H = rs
    cons = [z3.And(v >= -20000, v <= 20000) for v in (px, py, pz, sx, sy, sz)] + [z3.And(v >= 0, v <= 1000) for v in (L, W, H)]
    seen = {}

    def libm(name, x):
        x = z3.simplify(x)
        if not z3.is_bv_value(x):
            raise Unsupported('sin/cos of a symbolic angle')
        b = x.as_long()
        if b not in seen:
            seen[b] = sinf_native(b)
        return BV(seen[b][0] if 'sin' in name else seen[b][1], 32)
    ex.set_assumptions(cons)
    t0 = time.time()
    try:
        paths = ex.explore_guided(key, lambda: [Agg(list(bvs[0:3])), Agg(list(bvs[3:6])), bvs[6], bvs[7], bvs[8], BV(yawbits, 32)], env={'libm': libm})
    except Unsupported as e:
        return {'yaw': yawbits, 'status': 'inconclusive', 'why': str(e)[:300]}
    # reference, independent of the library's rotation formula: the box frame is the world frame rotated by the yaw,
    # so box-frame coordinates are the offsets rotated by -yaw; cos/sin from Python's libm in double precision
    yaw = bits_f32(yawbits)
    C = rv(Fraction(math.cos(yaw)))
    S = rv(Fraction(math.sin(yaw)))
    dx, dy, dz = px - sx, py - sy, pz - sz
    rx = dx * C + dy * S
    ry = dy * C - dx * S
    ab = lambda t: z3.If(t >= 0, t, -t)
    hl, hw, hh = L / 2 + 2, W / 2 + 2, H / 2 + 2
    d = rv(DELTA)
    clearly_in = z3.And(ab(rx) + d <= hl, ab(ry) + d <= hw, ab(dz) + d <= hh)
    clearly_out = z3.Or(ab(rx) > hl + d, ab(ry) > hw + d, ab(dz) > hh + d)
    res = []
    for P in paths:
        if P.status == 'unsupported':
            return {'yaw': yawbits, 'status': 'inconclusive', 'why': P.detail[:300]}
        if P.status == 'infeasible':
            continue
        if P.status != 'ret':
            return {'yaw': yawbits, 'status': 'inconclusive', 'why': 'path ends in %s %s' % (P.status, P.detail[:100])}
        r = P.result
        for want, cond, label in ((True, clearly_in, 'a point clearly inside the box is reported outside'), (False, clearly_out, 'a point clearly outside the box is reported inside')):
            sol = z3.Solver()
            sol.set('timeout', timeout * 1000)
            sol.add(*cons)
            sol.add(*M.ETA_CONS)
            sol.add(*P.pc)
            sol.add(cond)
            sol.add(r != z3.BoolVal(want) if z3.is_bool(r) else r != BV(1 if want else 0, r.size()))
            c = sol.check()
            if c == z3.sat:
                vals = [to_f32_bits(v) for v in model_reals(sol.model(), rs)]
                return {'yaw': yawbits, 'status': 'candidate', 'what': label, 'vals': vals, 'secs': time.time() - t0}
            if c == z3.unknown:
                res.append('unknown')
    if res:
        return {'yaw': yawbits, 'status': 'inconclusive', 'why': 'solver timeout', 'secs': time.time() - t0}
    return {'yaw': yawbits, 'status': 'holds', 'secs': time.time() - t0, 'paths': len(paths), 'angles': sorted(seen)}


def reference_inside(vals_bits, yawbits):
    """exact rational evaluation of the definition at concrete f32 inputs: 'in', 'out' or 'band'"""
    v = [Fraction(bits_f32(b)) for b in vals_bits]
    px, py, pz, sx, sy, sz, L, W, H = v
    yaw = bits_f32(yawbits)
    C, S = Fraction(math.cos(yaw)), Fraction(math.sin(yaw))
    dx, dy, dz = px - sx, py - sy, pz - sz
    rx, ry = dx * C + dy * S, dy * C - dx * S
    hl, hw, hh = L / 2 + 2, W / 2 + 2, H / 2 + 2
    if abs(rx) + DELTA <= hl and abs(ry) + DELTA <= hw and abs(dz) + DELTA <= hh:
        return 'in'
    if abs(rx) > hl + DELTA or abs(ry) > hw + DELTA or abs(dz) > hh + DELTA:
        return 'out'
    return 'band'


def _sexp_num(tok):
    """value printed by (get-value): 2.0 | (- x) | (/ a b); None for anything else (algebraic numbers)"""
    tok = tok.strip()
    try:
        if tok.startswith('(- '):
            v = _sexp_num(tok[3:-1])
            return None if v is None else -v
        if tok.startswith('(/ '):
            a, b = _split2(tok[3:-1])
            a, b = _sexp_num(a), _sexp_num(b)
            return None if a is None or b is None else a / b
        return Fraction(tok)
    except Exception:
        return None


def _split2(t):
    depth = 0
    for k, ch in enumerate(t):
        if ch == '(':
            depth += 1
        elif ch == ')':
            depth -= 1
        elif ch == ' ' and depth == 0:
            return t[:k], t[k + 1:]
    raise ValueError(t)


def cli_check(job):
    """decide one query with the z3 binary under a hard time limit (the library's nlsat ignores soft timeouts)"""
    fn, smt, names, timeout = job
    open(fn, 'w').write('(set-logic QF_NRA)\n' + smt + '\n(check-sat)\n' + ''.join('(get-value (%s))\n' % n for n in names))
    import subprocess
    t0 = time.time()
    try:
        r = subprocess.run(['z3', '-T:%d' % timeout, fn], capture_output=True, text=True, timeout=timeout + 20)
        out = r.stdout
    except subprocess.TimeoutExpired:
        out = 'timeout'
    lines = out.strip().splitlines()
    st = lines[0].strip() if lines else 'unknown'
    if '(error' in out and st != 'sat' and st != 'unsat':
        st = 'unknown'
    vals = None
    if st == 'sat':
        vals = []
        for n in names:
            m = re.search(r'\(\(%s (.*)\)\)' % re.escape(n), out)
            vals.append(_sexp_num(m.group(1)) if m else None)
    return st if st in ('sat', 'unsat') else 'unknown', vals, time.time() - t0


def distance_queries(prog, inv, workdir, timeout):
    """distance helpers under the rounding-error semantics (nonlinear real arithmetic): result >= 0 and its square is
    within relative tolerance of the sum of squared coordinate differences; is_within_distance against the same sum.
    Coordinate differences a_i - b_i are generalised to free reals x_i (sound: any real in the doubled range)."""
    jobs = []
    meta = []
    fns = set()
    eps = rv(Fraction(1, 10 ** 12))
    lo, hi = rv((1 - TOL) ** 2), rv((1 + TOL) ** 2)
    for name, n, public in (('c20_d3', 3, 'distance_between'), ('c20_d2', 2, 'distance_2d'), ('c20_wd', 3, 'is_within_distance')):
        ex = Exec(prog)
        M.float_reset('err', 'rel')
        root = inv.local.get(name)
        ins = [M.real_input('%s%d' % (c, i)) for c in 'ab' for i in range(n)]
        extra = [M.real_input('d')] if name == 'c20_wd' else []
        bvs = [x[0] for x in ins + extra]
        rs = [x[1] for x in ins + extra]
        cons = [z3.And(v >= -20000, v <= 20000) for v in rs[:2 * n]] + ([z3.And(rs[-1] >= 0, rs[-1] <= 40000)] if extra else [])
        ex.set_assumptions(cons)
        args = [Agg(list(bvs[:n])), Agg(list(bvs[n:2 * n]))] + ([bvs[-1]] if extra else [])
        paths = ex.explore_guided(root['key'], lambda: list(args))
        fns.update(ex.fns_reached)
        sref = sum((x - y) * (x - y) for x, y in zip(rs[:n], rs[n:2 * n]))
        xs = [z3.Real('x%d' % i) for i in range(n)]
        subs = [(rs[i] - rs[n + i], xs[i]) for i in range(n)]
        for pi, P in enumerate(paths):
            if P.status == 'infeasible':
                continue
            if P.status != 'ret':
                meta.append({'fn': public, 'label': 'path', 'status': 'unknown', 'why': 'path ends in %s %s' % (P.status, P.detail[:100])})
                continue
            if extra:
                # same inputs, same float session: the callee's result is literally the term distance_between yields
                r = P.result
                inside = r if z3.is_bool(r) else r != 0
                d = rs[-1]
                ex2 = Exec(prog)
                ex2.set_assumptions(cons)
                dp = [Q for Q in ex2.explore_guided(inv.local.get('c20_d3')['key'], lambda: list(args[:2])) if Q.status == 'ret']
                if len(dp) != 1:
                    meta.append({'fn': public, 'label': 'path', 'status': 'unknown', 'why': 'distance_between has %d paths' % len(dp)})
                    continue
                bads = [('differs from distance_between(a, b) < d', inside != (M.realof(dp[0].result) < d))]
            else:
                got = M.realof(P.result)
                bads = [('negative', got < 0), ('too large', got * got > hi * sref + eps), ('too small', got * got < lo * sref - eps)]
            for label, bad in bads:
                f = z3.And(*(list(M.ETA_CONS) + list(P.pc) + [bad]))
                g = z3.substitute(f, *subs)
                generalised = not any(str(v) in g.sexpr() for v in rs[:2 * n])
                sol = z3.Solver()
                if generalised:
                    sol.add(*[z3.And(x >= -40000, x <= 40000) for x in xs])
                    sol.add(*cons[2 * n:])
                    sol.add(g)
                    names = [str(x) for x in xs] + [str(v) for v in rs[2 * n:]]
                else:
                    sol.add(*cons)
                    sol.add(f)
                    names = [str(v) for v in rs]
                fn = os.path.join(workdir, '%s_%d_%s.smt2' % (name, pi, re.sub(r'\W+', '_', label)[:30]))
                jobs.append((fn, sol.to_smt2().replace('(check-sat)', ''), names, timeout))
                meta.append({'fn': public, 'label': label, 'n': n, 'generalised': generalised, 'kind': 'within' if extra else 'dist%d' % n})
    return jobs, meta, sorted(fns)


def distance_check(ck, prog, inv, timeout):
    from ..common import WORK
    workdir = os.path.join(WORK, 'c20')
    os.makedirs(workdir, exist_ok=True)
    jobs, meta, fns = distance_queries(prog, inv, workdir, timeout)
    todo = [m for m in meta if 'status' not in m]
    with mp.Pool(min(NCPU, max(1, len(jobs)))) as pool:
        results = pool.map(cli_check, jobs, chunksize=1)
    for m in meta:
        if m.get('status') == 'unknown':
            ck.inconclusive.append('%s: %s' % (m['fn'], m['why']))
    for m, (st, vals, secs) in zip(todo, results):
        m['secs'] = round(secs, 1)
        if st == 'unsat':
            continue
        if st == 'unknown':
            ck.inconclusive.append('%s: "%s" obligation: z3 (nonlinear real arithmetic) gave no verdict in %ds' % (m['fn'], m['label'], timeout))
            continue
        if vals is None or any(v is None for v in vals):
            ck.inconclusive.append('%s: "%s": candidate with non-rational coordinates could not be replayed' % (m['fn'], m['label']))
            continue
        n = m['n']
        if m['generalised']:
            coords = list(vals[:n]) + [Fraction(0)] * n + list(vals[n:])
        else:
            coords = list(vals)
        bits = [to_f32_bits(v) for v in coords]
        fl = [bits_f32(b) for b in bits]
        dist = math.sqrt(sum((Fraction(x) - Fraction(y)) ** 2 for x, y in zip(fl[:n], fl[n:2 * n])))
        outs = [native.run('replay_base', [m['kind']] + bits, release=rel).stdout.strip() for rel in (False, True)]
        if m['kind'] == 'within':
            wrong = any(o != ('true' if dist < fl[-1] else 'false') for o in outs) and abs(dist - fl[-1]) > 1e-4 * max(1.0, dist)
        else:
            wrong = not all(o and float(o) >= 0 and abs(float(o) - dist) <= 1e-5 * dist + 1e-6 for o in outs)
        if wrong:
            ck.violation('geometry::%s' % m['fn'], '%s: %s at %r (exact distance %r, native %r)' % (m['fn'], m['label'], fl, dist, outs), {'vals_bits': bits, 'native': outs, 'kind': m['kind']}, confirmed=True)
        else:
            ck.inconclusive.append('%s: "%s": candidate from the rounding-error model does not reproduce natively at %r' % (m['fn'], m['label'], fl))
    ck.sample({'functions': 'distance_between, distance_2d, is_within_distance', 'obligations': [{k: m.get(k) for k in ('fn', 'label', 'secs')} for m in todo]})
    return len(jobs), fns


def run(tier, only=None):
    ck = Check(PROP, tier, 'model_checking')
    out, dropped = mirdump.dump_items('geometry', ['wow_world_base'], ITEMS, [], extra_rs='pub fn __templates() {}\n',)
    for k, why in dropped.items():
        ck.inconclusive.append('entry %s does not compile: %s' % (k, why[:200]))
    prog = Prog(out)
    inv = Inventory(prog)
    nq = 0
    fns = set()
    tq = 150 if tier == 'quick' else 3600
    try:
        k, f = distance_check(ck, prog, inv, tq)
        nq += k
        fns.update(f)
    except Unsupported as e:
        ck.inconclusive.append('distance helpers: %s' % e)
    # ---- boxes: one query set per yaw
    yaws = table_yaws()
    extra = [f32bits(2 * math.pi * k / 16) for k in range(16)] if tier == 'quick' else [f32bits(2 * math.pi * k / 256) for k in range(256)]
    allyaws = sorted(set(yaws + extra))
    root = inv.local.get('c20_sq')
    jobs = [(out, root['key'], y, 60 if tier == 'quick' else 600) for y in allyaws]
    with mp.Pool(min(NCPU, len(jobs))) as pool:
        results = pool.map(square_job, jobs, chunksize=4)
    nhold = 0
    for res in results:
        nq += 2
        if res['status'] == 'holds':
            nhold += 1
        elif res['status'] == 'inconclusive':
            ck.inconclusive.append('is_within_square yaw=%r: %s' % (bits_f32(res['yaw']), res.get('why')))
        else:
            # candidate from the over-approximating model: replay natively at the nearest f32 inputs
            vals = res['vals']
            args = ['square'] + vals + [res['yaw']]
            outs = [native.run('replay_base', args, release=rel).stdout.strip() for rel in (False, True)]
            fl = [bits_f32(v) for v in vals]
            ref = reference_inside(vals, res['yaw'])
            wrong = (ref == 'in' and 'false' in outs) or (ref == 'out' and 'true' in outs)
            if wrong:
                ck.violation('geometry::is_within_square', '%s: yaw=%r player=%r box centre=%r length/width/height=%r native=%r definition=%s' % (res['what'], bits_f32(res['yaw']), fl[0:3], fl[3:6], fl[6:9], outs, ref),
                             {'yaw_bits': res['yaw'], 'vals_bits': vals, 'native': outs, 'what': res['what'], 'kind': 'square'}, confirmed=True)
            else:
                ck.inconclusive.append('is_within_square yaw=%r: candidate from the rounding-error model does not reproduce natively (%s; native %r, definition %s)' % (bits_f32(res['yaw']), res['what'], outs, ref))
    ck.sample({'function': 'is_within_square', 'yaws_checked': len(jobs), 'yaws_holding': nhold, 'yaw_sources': 'all %d distinct yaws of the trigger tables + %d evenly spaced' % (len(yaws), len(extra))})
    ck.assume('f32 arithmetic is modelled by exact real arithmetic plus one explicit rounding-error term per operation, |eta| <= 2^-24 |exact| + 2^-149 (round-to-nearest without overflow: inputs are bounded so every intermediate stays below 2^18); every f32 execution is an instance, so unsat carries over to the bit-exact semantics; a sat answer is a candidate that is replayed natively at the nearest f32 inputs before it is reported')
    ck.assume('sin/cos: the angle the MIR computes from the concrete yaw is evaluated bit-exactly (z3 FP simplification) and its f32 sin/cos are taken from this machine\'s libm through the native runner; the reference rotates by the yaw itself with double-precision cos/sin from Python')
    ck.assume('box reference: offsets rotated into the box frame, half extent + 2-yard tolerance per axis; a band of %s yard around each face is left undecided (rounding of the code and of the reference)' % DELTA)
    ck.assume('domain: positions and centres within +-20000, extents 0..1000, yaw from the stated finite set; distances: result >= 0 and result^2 within relative (1 +- %s)^2 of the exact sum of squares (+- 1e-12); map equality and the trigger-table lookup (verify_trigger) are not covered by this check' % TOL)
    return ck.finish({'states': max(len(jobs), 1), 'transitions': max(nq, 1), 'traces_validated_against_impl': 0, 'yaws': len(jobs), 'queries': nq, 'functions_encoded': sorted(fns)[:30],
                      'bounds': 'yaw: the stated finite set; all other inputs symbolic reals over the stated ranges (superset of the f32 values)',
                      'box_yaws_decided': nhold,
                      'rule': 'per yaw: two z3 queries in linear real arithmetic (clearly inside => true, clearly outside => false) over all positions and box dimensions; distances: nonlinear real arithmetic'}, fail_on_inconclusive=(nhold == 0 and len(jobs) > 0 and not ck.violations))


def replay(path):
    j = json.load(open(path))
    if 'vals_bits' not in j or j.get('kind', 'square') != 'square':
        print(json.dumps(j)[:600])
        print('VIOLATION property=%s replay=%s' % (PROP, path))
        return 1
    args = ['square'] + j['vals_bits'] + [j['yaw_bits']]
    outs = [native.run('replay_base', args, release=rel).stdout.strip() for rel in (False, True)]
    print('native:', outs, 'expected:', 'true' if 'reported outside' in j['what'] else 'false')
    expect_inside = 'reported outside' in j['what']
    if any(o == ('false' if expect_inside else 'true') for o in outs):
        print('VIOLATION property=%s replay=%s' % (PROP, path))
        return 1
    return 0
