"""C20 - area-trigger containment and distance helpers match their geometric definition.
MIRSYM executes the MIR of geometry::is_within_square / distance_between / distance_2d / is_within_distance with all
positions and dimensions symbolic f32 (z3 floating-point theory, round-nearest-even) and sin/cos taken from the real
libm for each yaw of a stated set. Reference: the box-frame definition evaluated in FP64 with a margin (inside by more
than delta must be reported inside, outside by more than delta must be reported outside)."""
import glob
import json
import math
import os
import re
import struct
import time
import multiprocessing as mp
import z3
from ..common import Check, REPO, log, NCPU
from .. import mirdump, native
from ..mirsym import Prog, Exec, Agg, Unsupported, BV
from ..inventory import Inventory
from ..models import to_fp, from_fp

PROP = 'C20'
ITEMS = {
    'sq': 'pub fn c20_sq(p: wow_world_base::shared::vector3d_vanilla_tbc_wrath::Vector3d, s: wow_world_base::shared::vector3d_vanilla_tbc_wrath::Vector3d, l: f32, w: f32, h: f32, yaw: f32) -> bool { wow_world_base::geometry::is_within_square(p, s, l, w, h, yaw) }',
    'd3': 'pub fn c20_d3(a: wow_world_base::shared::vector3d_vanilla_tbc_wrath::Vector3d, b: wow_world_base::shared::vector3d_vanilla_tbc_wrath::Vector3d) -> f32 { wow_world_base::geometry::distance_between(a, b) }',
    'd2': 'pub fn c20_d2(a: wow_world_base::shared::vector2d_vanilla_tbc_wrath::Vector2d, b: wow_world_base::shared::vector2d_vanilla_tbc_wrath::Vector2d) -> f32 { wow_world_base::geometry::distance_2d(a, b) }',
    'wd': 'pub fn c20_wd(a: wow_world_base::shared::vector3d_vanilla_tbc_wrath::Vector3d, b: wow_world_base::shared::vector3d_vanilla_tbc_wrath::Vector3d, d: f32) -> bool { wow_world_base::geometry::is_within_distance(a, b, d) }',
}


def f32bits(x):
    return struct.unpack('<I', struct.pack('<f', x))[0]


def bits_f32(b):
    return struct.unpack('<f', struct.pack('<I', b))[0]


def table_yaws():
    ys = set()
    for f in glob.glob(os.path.join(REPO, 'wow_world_base/src/extended/*/trigger/*.rs')):
        for m in re.finditer(r'yaw:\s*(-?[0-9.]+(?:e-?\d+)?)', open(f).read()):
            ys.add(f32bits(float(m.group(1))))
    return sorted(ys)


F32 = z3.Float32()
F64 = z3.Float64()
RNE = z3.RNE()


def fv(name):
    return z3.BitVec(name, 32)


def in_range(bv, lo, hi):
    f = to_fp(bv)
    return z3.And(z3.Not(z3.fpIsNaN(f)), z3.Not(z3.fpIsInf(f)), z3.fpGEQ(f, z3.FPVal(lo, F32)), z3.fpLEQ(f, z3.FPVal(hi, F32)))


def d64(bv):
    return z3.fpFPToFP(RNE, to_fp(bv), F64)


def square_job(job):
    dump, key, yawbits, rot_bits, sin_bits, cos_bits, timeout = job
    prog = Prog(dump)
    ex = Exec(prog)
    px, py, pz, sx, sy, sz, L, W, H = [fv(n) for n in ('px', 'py', 'pz', 'sx', 'sy', 'sz', 'len', 'wid', 'hei')]
    cons = [in_range(v, -20000.0, 20000.0) for v in (px, py, pz, sx, sy, sz)] + [in_range(v, 0.0, 1000.0) for v in (L, W, H)]

    def libm(name, x):
        # the argument is the concrete rotation the library computed for this yaw
        return BV(sin_bits if 'sin' in name else cos_bits, 32)
    ex.set_assumptions(cons)
    t0 = time.time()
    res = []
    try:
        paths = ex.explore_guided(key, lambda: [Agg([px, py, pz]), Agg([sx, sy, sz]), L, W, H, BV(yawbits, 32)], env={'libm': libm})
    except Unsupported as e:
        return {'yaw': yawbits, 'status': 'inconclusive', 'why': str(e)[:300]}
    # reference in FP64 with the real sin/cos values (exactly representable in f64)
    s64 = z3.FPVal(bits_f32(sin_bits), F64)
    c64 = z3.FPVal(bits_f32(cos_bits), F64)
    dx = z3.fpSub(RNE, d64(px), d64(sx))
    dy = z3.fpSub(RNE, d64(py), d64(sy))
    dz = z3.fpSub(RNE, d64(pz), d64(sz))
    rx = z3.fpSub(RNE, z3.fpMul(RNE, dx, c64), z3.fpMul(RNE, dy, s64))
    ry = z3.fpAdd(RNE, z3.fpMul(RNE, dy, c64), z3.fpMul(RNE, dx, s64))
    two = z3.FPVal(2.0, F64)
    delta = z3.FPVal(2.0 ** -6, F64)
    hl = z3.fpAdd(RNE, z3.fpDiv(RNE, d64(L), two), two)
    hw = z3.fpAdd(RNE, z3.fpDiv(RNE, d64(W), two), two)
    hh = z3.fpAdd(RNE, z3.fpDiv(RNE, d64(H), two), two)
    ax, ay, az = z3.fpAbs(rx), z3.fpAbs(ry), z3.fpAbs(dz)
    clearly_in = z3.And(z3.fpLEQ(z3.fpAdd(RNE, ax, delta), hl), z3.fpLEQ(z3.fpAdd(RNE, ay, delta), hw), z3.fpLEQ(z3.fpAdd(RNE, az, delta), hh))
    clearly_out = z3.Or(z3.fpGT(ax, z3.fpAdd(RNE, hl, delta)), z3.fpGT(ay, z3.fpAdd(RNE, hw, delta)), z3.fpGT(az, z3.fpAdd(RNE, hh, delta)))
    for P in paths:
        if P.status == 'unsupported':
            return {'yaw': yawbits, 'status': 'inconclusive', 'why': P.detail[:300]}
        if P.status != 'ret':
            continue
        r = P.result
        for want, cond, label in ((True, clearly_in, 'a point clearly inside the box is reported outside'), (False, clearly_out, 'a point clearly outside the box is reported inside')):
            sol = z3.Solver()
            sol.set('timeout', timeout * 1000)
            sol.add(*cons)
            sol.add(*P.pc)
            sol.add(cond)
            sol.add(r != z3.BoolVal(want) if z3.is_bool(r) else r != BV(1 if want else 0, r.size()))
            c = sol.check()
            if c == z3.sat:
                m = sol.model()
                vals = [m.eval(v, model_completion=True).as_long() for v in (px, py, pz, sx, sy, sz, L, W, H)]
                return {'yaw': yawbits, 'status': 'violation', 'what': label, 'vals': vals, 'secs': time.time() - t0}
            if c == z3.unknown:
                res.append('unknown')
    if res:
        return {'yaw': yawbits, 'status': 'inconclusive', 'why': 'solver timeout', 'secs': time.time() - t0}
    return {'yaw': yawbits, 'status': 'holds', 'secs': time.time() - t0}


def run(tier, only=None):
    ck = Check(PROP, tier, 'model_checking')
    out, dropped = mirdump.dump_items('geometry', ['wow_world_base'], ITEMS, [], extra_rs='pub fn __templates() {}\n',)
    for k, why in dropped.items():
        ck.inconclusive.append('entry %s does not compile: %s' % (k, why[:200]))
    prog = Prog(out)
    inv = Inventory(prog)
    ex = Exec(prog)
    # ---- distances: MIR term == sqrt of the sum of squared differences (f32, RNE), decided by z3
    nq = 0
    for name, n in (('c20_d3', 3), ('c20_d2', 2)):
        root = inv.local.get(name)
        a = [fv('a%d' % i) for i in range(n)]
        b = [fv('b%d' % i) for i in range(n)]
        cons = [in_range(v, -20000.0, 20000.0) for v in a + b]
        ex.set_assumptions(cons)
        try:
            paths = ex.explore_guided(root['key'], lambda: [Agg(list(a)), Agg(list(b))])
        except Unsupported as e:
            ck.inconclusive.append('%s: %s' % (name, e))
            continue
        acc = None
        for x, y in zip(a, b):
            dlt = z3.fpSub(RNE, to_fp(x), to_fp(y))
            sq = z3.fpMul(RNE, dlt, dlt)
            acc = sq if acc is None else z3.fpAdd(RNE, acc, sq)
        want = z3.fpSqrt(RNE, acc)
        for P in paths:
            if P.status != 'ret':
                ck.inconclusive.append('%s: path %s %s' % (name, P.status, P.detail[:100]))
                continue
            sol = z3.Solver()
            sol.set('timeout', 120000)
            sol.add(*cons)
            sol.add(*P.pc)
            got = to_fp(P.result)
            sol.add(z3.Not(z3.Or(z3.fpEQ(got, want), z3.And(z3.fpIsNaN(got), z3.fpIsNaN(want)))))
            c = sol.check()
            nq += 1
            if c == z3.sat:
                m = sol.model()
                vals = [bits_f32(m.eval(v, model_completion=True).as_long()) for v in a + b]
                ck.violation('geometry::%s' % ('distance_between' if n == 3 else 'distance_2d'), 'result is not the Euclidean distance for %s' % (vals,), {'vals': vals})
            elif c == z3.unknown:
                ck.inconclusive.append('%s: solver timeout' % name)
        ck.sample({'function': 'distance_between' if n == 3 else 'distance_2d', 'obligation': 'result == sqrt(sum of squared coordinate differences) in f32 for all finite inputs within +-20000'})
    # is_within_distance(a, b, d) == (distance_between(a, b) < d)
    root = inv.local.get('c20_wd')
    a = [fv('a%d' % i) for i in range(3)]
    b = [fv('b%d' % i) for i in range(3)]
    dd = fv('d')
    cons = [in_range(v, -20000.0, 20000.0) for v in a + b] + [in_range(dd, 0.0, 40000.0)]
    ex.set_assumptions(cons)
    try:
        acc = None
        for x, y in zip(a, b):
            dlt = z3.fpSub(RNE, to_fp(x), to_fp(y))
            sq = z3.fpMul(RNE, dlt, dlt)
            acc = sq if acc is None else z3.fpAdd(RNE, acc, sq)
        want = z3.fpLT(z3.fpSqrt(RNE, acc), to_fp(dd))
        for P in ex.explore_guided(root['key'], lambda: [Agg(list(a)), Agg(list(b)), dd]):
            if P.status != 'ret':
                continue
            sol = z3.Solver()
            sol.set('timeout', 120000)
            sol.add(*cons)
            sol.add(*P.pc)
            r = P.result
            sol.add(r != want)
            c = sol.check()
            nq += 1
            if c == z3.sat:
                ck.violation('geometry::is_within_distance', 'is_within_distance disagrees with distance < radius', {})
            elif c == z3.unknown:
                ck.inconclusive.append('is_within_distance: solver timeout')
    except Unsupported as e:
        ck.inconclusive.append('is_within_distance: %s' % e)
    # ---- boxes: one query set per yaw
    yaws = table_yaws()
    extra = [f32bits(2 * math.pi * k / 16) for k in range(16)] if tier == 'quick' else [f32bits(2 * math.pi * k / 64) for k in range(64)]
    sel = yaws if tier != 'quick' else (yaws[::max(1, len(yaws) // 10)][:10])
    allyaws = sorted(set(sel + extra))
    r = native.run('replay_base', ['sincos'] + allyaws)
    table = {}
    for line in r.stdout.splitlines():
        t = line.split()
        if len(t) == 4:
            table[int(t[0])] = (int(t[1]), int(t[2]), int(t[3]))
    root = inv.local.get('c20_sq')
    jobs = [(out, root['key'], y, table[y][0], table[y][1], table[y][2], 120 if tier == 'quick' else 600) for y in allyaws if y in table]
    with mp.Pool(min(NCPU, len(jobs))) as pool:
        results = pool.map(square_job, jobs, chunksize=1)
    nhold = 0
    bad = []
    for res in results:
        nq += 2
        if res['status'] == 'holds':
            nhold += 1
        elif res['status'] == 'inconclusive':
            ck.inconclusive.append('is_within_square yaw=%r: %s' % (bits_f32(res['yaw']), res.get('why')))
        else:
            bad.append(res)
    # native replay of box counterexamples
    for res in bad:
        vals = res['vals']
        args = ['square'] + vals + [res['yaw']]
        outs = [native.run('replay_base', args, release=rel).stdout.strip() for rel in (False, True)]
        fl = [bits_f32(v) for v in vals]
        expect_inside = 'reported outside' in res['what']
        confirmed = any(o == ('false' if expect_inside else 'true') for o in outs)
        ck.violation('geometry::is_within_square', '%s: yaw=%r player=%r box centre=%r length/width/height=%r native=%r' % (res['what'], bits_f32(res['yaw']), fl[0:3], fl[3:6], fl[6:9], outs),
                     {'yaw_bits': res['yaw'], 'vals_bits': vals, 'native': outs, 'what': res['what']}, confirmed=confirmed)
    ck.sample({'function': 'is_within_square', 'yaws_checked': len(jobs), 'yaws_holding': nhold, 'yaw_sources': '%d distinct yaws of the trigger tables (%d used) + %d evenly spaced' % (len(yaws), len(sel), len(extra))})
    ck.assume('f32 arithmetic = z3 FP theory, round-to-nearest-even; sin/cos of the rotation are the values the real libm returns on this machine (native runner), one query set per yaw')
    ck.assume('reference: box-frame coordinates in FP64 (x\' = dx cos r - dy sin r, y\' = dy cos r + dx sin r, r = 2 pi - yaw), 2-yard tolerance, margin delta = 2^-6 yard around the faces is left undecided (rounding)')
    ck.assume('domain: finite positions and centres within +-20000, extents 0..1000; map equality / trigger-table lookup dispatch (verify_trigger) is not covered by this check')
    return ck.finish({'states': max(len(jobs), 1), 'transitions': max(nq, 1), 'traces_validated_against_impl': len(bad), 'yaws': len(jobs), 'queries': nq, 'functions_encoded': sorted(ex.fns_reached)[:30],
                      'bounds': 'yaw: the stated finite set; all other inputs symbolic over the stated ranges',
                      'rule': 'per yaw: two z3 FP queries (clearly inside => true, clearly outside => false) over all positions and box dimensions'}, fail_on_inconclusive=False)


def replay(path):
    j = json.load(open(path))
    if 'vals_bits' not in j:
        print(j.get('what'))
        return 1
    args = ['square'] + j['vals_bits'] + [j['yaw_bits']]
    outs = [native.run('replay_base', args, release=rel).stdout.strip() for rel in (False, True)]
    print('native:', outs, 'expected:', 'true' if 'reported outside' in j['what'] else 'false')
    expect_inside = 'reported outside' in j['what']
    if any(o == ('false' if expect_inside else 'true') for o in outs):
        print('VIOLATION property=%s replay=%s' % (PROP, path))
        return 1
    return 0
