"""C04 - out-of-domain field values are rejected, never silently reinterpreted.
MIRSYM: (a) per (message, enum-typed member): the member's bytes in a canonical encoding are replaced by a symbolic
value of the full wire width constrained to be outside the declared set; every feasible path of the real read_inner
must return the enum error carrying exactly that value. (b) fixed-size world messages with any other body size must
return InvalidSize. (c) the opcode dispatchers with a symbolic opcode outside the wowm-defined set must return the
opcode error carrying that opcode."""
import json
import multiprocessing as mp
import os
import re
import time
import traceback
import z3
from ..common import Check, log, NCPU, seed
from .. import wowm, messages, encode, native
from ..codec import CodecRunner
from ..mirsym import Unsupported, Ref, Cell, SliceRef, EnumV, SymEnum, Agg, BV, concrete
from . import c01

PROP = 'C04'


def err_kind_names(R, root):
    """variant names of the error type E in the root's Result<_, E> return type"""
    ret = root['sig']['ret']
    r = R.prog.tk(ret)
    tys = [a['Type'] for a in r['Adt'][1] if isinstance(a, dict) and 'Type' in a]
    return tys[1], [v['name'] for v in R.prog.adt(tys[1])['variants']]


def check_enum_site(R, enc, fns, kind, site, names):
    """returns list of findings (dicts) or None when the shape cannot host an undeclared value at this site"""
    x = site['term']
    cons = [c for c in enc.cons if c is not site['valid']] + [z3.Not(site['valid'])]
    if R.sat(cons) is None:
        return None
    B = enc.bytes
    n = len(B)
    ex = R.ex
    ex.set_assumptions(cons)

    def mk_read():
        r = Ref(Cell(SliceRef(list(B), 0, n)))
        return [r, BV(n, 32)] if kind == 'world' else [r]
    out = []
    w = x.size()
    for P in ex.explore_guided(fns['read']['key'], mk_read):
        if P.status == 'infeasible':
            continue
        if P.status == 'unsupported':
            raise Unsupported(P.detail)
        if P.status != 'ret':
            m = R.sat(cons + P.pc)
            if m is not None:
                out.append({'kind': 'panic', 'what': 'undeclared value at %s: decoder ends in %s %s' % (site['path'], P.status, P.detail), 'body': R.concretize(m, B), 'x': m.eval(x, model_completion=True).as_long()})
            continue
        for c, d, f in R.result_alts(P.result):
            pc = P.pc + ([c] if not z3.is_true(c) else [])
            if d == 0:
                m = R.sat(cons + pc)
                if m is not None:
                    out.append({'kind': 'accepted', 'what': 'undeclared value %d (%#x) of %s at %s is accepted as a message' % (m.eval(x, model_completion=True).as_long(), m.eval(x, model_completion=True).as_long(), site['definer'], site['path']),
                                'body': R.concretize(m, B), 'x': m.eval(x, model_completion=True).as_long()})
                continue
            e = f[0]
            alts = [(z3.BoolVal(True), e.d, e.f)] if isinstance(e, EnumV) else (e.alts if isinstance(e, SymEnum) else None)
            if alts is None:
                raise Unsupported('error value %r' % (e,))
            for c2, d2, f2 in alts:
                pc2 = pc + ([c2] if not z3.is_true(c2) else [])
                if names[d2] != 'Enum':
                    m = R.sat(cons + pc2)
                    if m is not None:
                        out.append({'kind': 'other-error', 'what': 'undeclared value at %s yields error kind %s instead of the enum error' % (site['path'], names[d2]), 'body': R.concretize(m, B), 'x': m.eval(x, model_completion=True).as_long()})
                    continue
                val = f2[0].f[1]
                m = R.sat(cons + pc2 + [val != z3.ZeroExt(val.size() - w, x)])
                if m is not None:
                    out.append({'kind': 'wrong-value', 'what': 'enum error at %s reports %s, the offending number is %d' % (site['path'], m.eval(val, model_completion=True), m.eval(x, model_completion=True).as_long()),
                                'body': R.concretize(m, B), 'x': m.eval(x, model_completion=True).as_long()})
    return out


def check_fixed_size(R, enc, fns):
    """world message whose canonical encodings all have the same length n: any other body_size must give InvalidSize"""
    B = enc.bytes
    n = len(B)
    ex = R.ex
    _, names = err_kind_names(R, fns['read'])
    out = []
    bs = z3.BitVec('body_size', 32)
    for L, size_term, extra in [(n, bs, [bs != n]), (n + 1, BV(n + 1, 32), []), (max(n - 1, 0), BV(max(n - 1, 0), 32), [])]:
        if L == n and not extra:
            continue
        if L == n - 1 and n == 0:
            continue
        buf = [z3.BitVec('raw%d' % i, 8) for i in range(L)]
        ex.set_assumptions(list(extra))
        for P in ex.explore_guided(fns['read']['key'], lambda: [Ref(Cell(SliceRef(list(buf), 0, L))), size_term]):
            if P.status == 'infeasible':
                continue
            if P.status == 'unsupported':
                raise Unsupported(P.detail)
            if P.status != 'ret':
                continue   # panics belong to C03
            for c, d, f in R.result_alts(P.result):
                pc = P.pc + ([c] if not z3.is_true(c) else [])
                bad = None
                if d == 0:
                    bad = 'accepted'
                else:
                    e = f[0]
                    alts = [(z3.BoolVal(True), e.d, e.f)] if isinstance(e, EnumV) else e.alts
                    for c2, d2, f2 in alts:
                        if names[d2] != 'InvalidSize':
                            m = R.sat(list(extra) + pc + [c2])
                            if m is not None:
                                out.append({'kind': 'size-other-error', 'what': 'body of %s bytes (declared size %s) for a %d-byte message yields %s instead of InvalidSize' % (L, m.eval(size_term, model_completion=True), n, names[d2]),
                                            'body': R.concretize(m, buf), 'body_size': m.eval(size_term, model_completion=True).as_long()})
                if bad:
                    m = R.sat(list(extra) + pc)
                    if m is not None:
                        out.append({'kind': 'size-accepted', 'what': 'a %d-byte message is decoded from a body declared as %s bytes' % (n, m.eval(size_term, model_completion=True)),
                                    'body': R.concretize(m, buf), 'body_size': m.eval(size_term, model_completion=True).as_long()})
    return out


def worker(job):
    dump, kind, tier, sd, idxs = job
    corpus = wowm.Corpus()
    targets = messages.world_targets(corpus) if kind == 'world' else messages.login_targets(corpus)
    R = CodecRunner(dump)
    from ..inventory import Inventory
    inv = Inventory(R.prog)
    lib = open(os.path.join(os.path.dirname(dump), 'src', 'lib.rs')).read().splitlines()
    item_fn = {}
    for line in lib:
        m = re.search(r'pub fn (\w+)\(.*/\*ITEM:(.*?)\*/', line)
        if m:
            item_fn[m.group(2)] = m.group(1)
    bounds = encode.Bounds(tier)
    bounds.max_shapes = 12 if tier == 'quick' else 60
    out = []
    for i in idxs:
        view, cont, path = targets[i]
        t0 = time.time()
        r = {'path': path, 'idx': i, 'sites': 0, 'sites_checked': 0, 'findings': [], 'inc': [], 'fixed': None, 'file': cont['file']}
        try:
            fn = item_fn.get('ty|' + path)
            t = R.prog.tk(inv.type_of_local_arg(fn, 0))['Ref'][1]
            fns = messages.codec_fns(inv, t, kind)
            if 'read' not in fns:
                raise Unsupported('read_inner not found')
            if corpus.tag(cont, 'compressed') is not None:
                raise Unsupported('compressed message')
            _, names = err_kind_names(R, fns['read'])
            done = set()
            allsites = set()
            lens = set()
            first_enc = None
            for enc, ch in encode.shapes(corpus, view, cont, bounds, sd):
                lens.add(len(enc.bytes))
                first_enc = first_enc or enc
                for site in enc.enum_sites:
                    key = re.sub(r'\[\d+\]', '[]', site['path'])
                    allsites.add(key)
                    if key in done:
                        continue
                    fs = check_enum_site(R, enc, fns, kind, site, names)
                    if fs is None:
                        continue
                    done.add(key)
                    seenk = set()
                    for f in fs:
                        f['site'] = key
                        if f['kind'] in seenk:
                            continue
                        seenk.add(f['kind'])
                        r['findings'].append(f)
            r['sites'] = len(allsites)
            r['sites_checked'] = len(done)
            for k in sorted(allsites - done):
                r['inc'].append('%s: no covered shape can host an undeclared value at %s' % (path, k))
            # fixed-size messages (decided from the definition: no variable member at all)
            if kind == 'world' and first_enc is not None and len(lens) == 1 and is_constant_sized(corpus, view, cont):
                r['fixed'] = len(first_enc.bytes)
                r['findings'].extend(check_fixed_size(R, first_enc, fns))
        except encode.NotSupported as e:
            r['inc'].append('%s: unsupported by the reader: %s' % (path, e))
        except Unsupported as e:
            r['inc'].append('%s: %s' % (path, str(e)[:300]))
        except Exception:
            r['inc'].append('%s: checker exception %s' % (path, traceback.format_exc()[-500:]))
        r['secs'] = time.time() - t0
        out.append(r)
    return out, R.queries, R.solver_s + R.ex.stats['solver_s'], sorted(R.ex.fns_reached)


VARIABLE_TYPES = set(encode.STRING_TYPES) | {'PackedGuid', 'NamedGuid', 'VariableItemRandomProperty', 'UpdateMask', 'MonsterMoveSplines', 'AuraMask',
                                              'AchievementDoneArray', 'AchievementInProgressArray', 'EnchantMask', 'InspectTalentGearMask', 'AddonArray', 'CacheMask'}


def is_constant_sized(corpus, view, cont, depth=0):
    for m in cont['members']:
        if m['k'] != 'decl':
            return False
        if m['arr'] is not None and not re.fullmatch(r'\d+', m['arr']):
            return False
        ty = m['ty']
        if ty in VARIABLE_TYPES:
            return False
        sub = view['containers'].get(ty)
        if sub is not None and not is_constant_sized(corpus, view, sub, depth + 1):
            return False
    return True


def opcode_check(ck, corpus, R, inv):
    """(c) unknown opcodes: read_opcodes with a symbolic opcode outside the defined set"""
    n = 0
    for root in R.prog.roots:
        if not root['name'].endswith('::read_opcodes'):
            continue
        file = root.get('file', '')
        m = re.search(r'/world/(vanilla|tbc|wrath)/opcodes.rs', file)
        if not m:
            continue
        exp = m.group(1)
        # client or server enum: decided by the Ok type name
        ret = root['sig']['ret']
        okty = [a['Type'] for a in R.prog.tk(ret)['Adt'][1] if isinstance(a, dict) and 'Type' in a][0]
        side = 'client' if 'Client' in R.prog.adt(okty)['name'] else 'server'
        view = corpus.world_view(exp)
        kinds = ('cmsg', 'msg') if side == 'client' else ('smsg', 'msg')
        defined = sorted(set(c['opcode'] for c in view['containers'].values() if c['k'] in kinds and not corpus.is_test_object(c)))
        errty, enames = err_kind_names(R, root)
        opw = R.prog.int_info(root['sig']['args'][0])[0]
        op = z3.BitVec('opcode', opw)
        bsz = z3.BitVec('body_size', 32)
        L = 4
        buf = [z3.BitVec('raw%d' % i, 8) for i in range(L)]
        cons = [z3.And(*[op != v for v in defined if v < (1 << opw)])]
        R.ex.set_assumptions(cons)
        n += 1
        try:
            paths = R.ex.explore_guided(root['key'], lambda: [op, bsz, SliceRef(list(buf), 0, L)])
        except Unsupported as e:
            ck.inconclusive.append('read_opcodes %s %s: %s' % (exp, side, e))
            continue
        for P in paths:
            if P.status == 'unsupported':
                ck.inconclusive.append('read_opcodes %s %s: %s' % (exp, side, P.detail))
                continue
            if P.status != 'ret':
                continue
            for c, d, f in R.result_alts(P.result):
                pc = P.pc + ([c] if not z3.is_true(c) else [])
                what = None
                if d == 0:
                    what = 'an undefined opcode is decoded as a message'
                    cond = []
                else:
                    e = f[0]
                    alts = [(z3.BoolVal(True), e.d, e.f)] if isinstance(e, EnumV) else e.alts
                    for c2, d2, f2 in alts:
                        if enames[d2] != 'Opcode':
                            mm = R.sat(cons + pc + [c2])
                            if mm is not None:
                                v = mm.eval(op, model_completion=True).as_long()
                                ck.violation('wow_world_messages::%s::opcodes::%s/unknown-opcode' % (exp, side), 'undefined opcode %#x yields error %s instead of the opcode error' % (v, enames[d2]), {'opcode': v, 'exp': exp, 'side': side})
                            continue
                        mm = R.sat(cons + pc + [c2, f2[0] != (z3.ZeroExt(32 - opw, op) if opw < 32 else op)])
                        if mm is not None:
                            v = mm.eval(op, model_completion=True).as_long()
                            ck.violation('wow_world_messages::%s::opcodes::%s/unknown-opcode-value' % (exp, side), 'opcode error for %#x reports %s' % (v, mm.eval(f2[0], model_completion=True)), {'opcode': v, 'exp': exp, 'side': side})
                    continue
                mm = R.sat(cons + pc)
                if mm is not None:
                    v = mm.eval(op, model_completion=True).as_long()
                    ck.violation('wow_world_messages::%s::opcodes::%s/unknown-opcode' % (exp, side), '%s (opcode %#x)' % (what, v), {'opcode': v, 'exp': exp, 'side': side})
        ck.sample({'dispatcher': 'wow_world_messages::%s::opcodes (%s)' % (exp, side), 'defined_opcodes': len(defined), 'obligation': 'every u32 outside the defined set returns ExpectedOpcodeError::Opcode carrying that opcode'})
    return n


def run(tier, only=None):
    ck = Check(PROP, tier, 'model_checking')
    corpus = wowm.Corpus()
    sd = seed()
    tot = {'messages': 0, 'sites': 0, 'sites_checked': 0, 'fixed': 0, 'queries': 0, 'solver_s': 0.0}
    fn_names = set()
    pending = []
    for kind in ('login', 'world'):
        extra = [{'crate': 'wow_world_messages', 'pats': ['*::read_opcodes'], 'targs': []}] if kind == 'world' else None
        prog, inv, res, dropped = messages.build(kind, corpus, extra_roots=extra, name='messages_c04_' + kind)
        targets = messages.world_targets(corpus) if kind == 'world' else messages.login_targets(corpus)
        idxs = [i for i, (v, c, p) in enumerate(targets) if not only or only in p]
        if kind == 'world' and not only:
            R0 = CodecRunner(prog.path)
            tot['dispatchers'] = opcode_check(ck, corpus, R0, inv)
        if not idxs:
            continue
        nproc = min(NCPU, len(idxs))
        chunks = [idxs[j::nproc * 4] for j in range(nproc * 4)]
        chunks = [c for c in chunks if c]
        with mp.Pool(nproc) as pool:
            results = pool.map(worker, [(prog.path, kind, tier, sd, c) for c in chunks], chunksize=1)
        for out, q, ss, fns in results:
            tot['queries'] += q
            tot['solver_s'] += ss
            fn_names.update(fns)
            for r in out:
                tot['messages'] += 1
                tot['sites'] += r['sites']
                tot['sites_checked'] += r['sites_checked']
                tot['fixed'] += 1 if r['fixed'] is not None else 0
                ck.inconclusive.extend(r['inc'])
                if r['sites_checked'] > 1 and len(ck.cov['samples']) < 10:
                    ck.sample({'message': r['path'], 'enum_members': r['sites'], 'checked': r['sites_checked'], 'fixed_size': r['fixed'], 'secs': round(r['secs'], 2)})
                for f in r['findings']:
                    view, cont, path = targets[r['idx']]
                    pending.append((kind, view, cont, path, f))
    # (c') typed expect helpers: an opcode other than the expected one must be rejected with the opcode error carrying it
    if not only:
        from . import c02
        from .. import mirdump
        from ..mirsym import Prog, Exec
        from ..inventory import Inventory
        out, _dropped = mirdump.dump_items('framing_world', ['wow_world_messages', 'wow_world_base'], c02.items(), [], extra_rs=messages.TEMPLATES)
        fprog = Prog(out)
        finv = Inventory(fprog)
        fex = Exec(fprog)
        fex.max_paths = 200
        fpending = []
        nexp = 0
        for e in c02.EXPS:
            for side, pre in (('server', 'es_'), ('client', 'ec_')):
                root = finv.local.get('c02_' + pre + e)
                if root:
                    try:
                        c02.check_reader(ck, fex, root, e, side, 'expect', fpending)
                        nexp += 1
                    except Unsupported as x:
                        ck.inconclusive.append('expect helper %s %s: %s' % (e, side, x))
        tot['expect_helpers_checked'] = nexp
        fpending = [p for p in fpending if p['kind'] == 'opcode']
        cases = []
        for i, p in enumerate(fpending):
            p['rust'] = c02.rust_case(p)
            cases.append((str(i), p['rust']))
        outs = {}
        if cases:
            try:
                outs = native.eval_cases('world', cases)
            except Exception as x:
                ck.inconclusive.append('native replay failed to build: %s' % str(x)[-300:])
        for i, p in enumerate(fpending):
            o = outs.get(str(i))
            ck.violation(p['key'], '%s native=%r' % (p['what'], o), dict(p, native=o), confirmed=c02.confirms(p, o))
    by_kind = {}
    for kind, view, cont, path, f in pending:
        by_kind.setdefault(kind, []).append((view, cont, path, f))
    for kind, lst in by_kind.items():
        cases = []
        for view, cont, path, f in lst:
            key = '%s/%s/%s' % (path, f.get('site', 'body-size'), f['kind'])
            f['key'] = key
            if ck.known.match(PROP, key) is not None:
                continue
            body = f['body']
            frame = c01.frame_bytes(kind, cont, view, body)
            if 'body_size' in f and kind == 'world':
                # header announces body_size; the buffer holds what we have
                pass
            f['frame'] = frame
            f['rust'] = c01.rust_replay(kind, cont, view, path, frame)
            cases.append((key + '#' + str(len(cases)), f['rust']))
            f['case'] = cases[-1][0]
        outs = {}
        if cases:
            try:
                outs = native.eval_cases('world' if kind == 'world' else 'login', cases)
            except Exception as e:
                ck.inconclusive.append('native replay failed to build: %s' % str(e)[-400:])
        for view, cont, path, f in lst:
            o = outs.get(f.get('case'))
            f['native'] = o
            ck.violation(f['key'], '%s native=%r' % (f['what'], o), dict(f, message=path, kind_of_message=kind), confirmed=native_confirms(f, o))
    ck.assume('canonical encodings and enum domains: vf/encode.py / vf/wowm.py (independent reading of the wowm sources)')
    ck.assume('an undeclared value is any value of the full wire width (upcast width for upcast members) outside the declared set: width aliases are included by construction')
    return ck.finish({'states': max(tot['sites_checked'] + tot['fixed'], 1), 'transitions': max(tot['queries'], 1), 'traces_validated_against_impl': len(pending),
                      'messages': tot['messages'], 'enum_members_found': tot['sites'], 'enum_members_checked': tot['sites_checked'], 'fixed_size_messages_checked': tot['fixed'],
                      'opcode_dispatchers_checked': tot.get('dispatchers', 0), 'expect_helpers_checked': tot.get('expect_helpers_checked', 0), 'queries': tot['queries'], 'solver_s': round(tot['solver_s'], 1),
                      'functions_encoded_count': len(fn_names), 'functions_encoded': sorted(fn_names)[:60],
                      'bounds': 'values: none (full wire width); hosts: the first covered shape that can host the undeclared value, array elements collapsed to one representative',
                      'rule': 'per enum member: all undeclared wire values at once; per fixed-size message: all u32 body sizes != N; per dispatcher: all u32 opcodes outside the defined set'},
                     fail_on_inconclusive=False)


def native_confirms(f, o):
    if not o or o[0] is None:
        return False
    k = f['kind']
    for out in o:
        if out is None:
            continue
        if k in ('accepted', 'size-accepted'):
            if out.startswith('OK'):
                return True
        elif k == 'panic':
            if out.startswith('PANIC'):
                return True
        elif k == 'wrong-value':
            m = re.search(r'value: (-?\d+)', out)
            if m and int(m.group(1)) != f.get('x'):
                return True
        else:
            if out.startswith('ERR') and 'Enum' not in out and 'InvalidSize' not in out:
                return True
    return False


def replay(path):
    j = json.load(open(path))
    if not j.get('rust'):
        print(j.get('what'))
        print('VIOLATION property=%s replay=%s' % (PROP, path))
        return 1
    dep = 'login' if j.get('kind_of_message') == 'login' else 'world'
    o = native.eval_cases(dep, [('x', j['rust'])])['x']
    print('native:', o)
    if native_confirms(j, o):
        print('VIOLATION property=%s replay=%s' % (PROP, path))
        return 1
    return 0
