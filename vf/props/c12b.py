"""C12 part b: the flag structs the generator synthesises for messages whose members depend on flag bits
(<Container>_<FlagType>: raw value + one Option per conditional block). For every such type and every enumerator:
clear_x leaves exactly inner & !X, set_x / new_x give inner | X / X, empty() is 0, is_empty <=> inner == 0, decided
by z3 on the MIR with the raw value a free bit-vector (the Option members start as None; set_x arguments are fresh)."""
import json
import multiprocessing as mp
import os
import re
import time
import z3
from ..common import log, NCPU
from .. import wowm, mirdump, native
from ..mirsym import Prog, Exec, Agg, Ref, Cell, EnumV, SymEnum, Unsupported, BV
from ..inventory import Inventory

PATS = ['*::new', '*::empty', '*::is_empty', '*::new_*', '*::set_*', '*::clear_*', '*::get_*', '*::as_int']


def flag_vars(corpus, view, cont):
    """[(flag type name, definer)] for flag members of the container that some if statement tests"""
    decls = {}
    used = set()

    def walk(ms):
        for m in ms:
            if m['k'] == 'decl':
                d = view['definers'].get(m['ty'])
                if d is not None and d['k'] == 'flag' and m['arr'] is None:
                    decls[m['name']] = d
            elif m['k'] == 'if':
                for conds, body in m['branches']:
                    for (v, op, en) in conds:
                        if op == '&':
                            used.add(v)
                    walk(body)
                if m['els']:
                    walk(m['els'])
            elif m['k'] == 'optional':
                walk(m['members'])
    walk(cont['members'])
    return [(decls[v]['name'], decls[v]) for v in sorted(used) if v in decls]


def targets(corpus):
    out = []
    for exp in ('vanilla', 'tbc', 'wrath'):
        v = corpus.world_view(exp)
        for name, c in sorted(v['containers'].items()):
            if corpus.is_test_object(c):
                continue
            for fname, d in flag_vars(corpus, v, c):
                out.append(('world', 'wow_world_messages::%s::%s_%s' % (exp, name, fname), d))
    for ver in wowm.LOGIN_ALL:
        v = corpus.login_view(ver)
        for name, c in sorted(v['containers'].items()):
            if corpus.is_test_object(c):
                continue
            lv = (corpus.tag(c, 'login_versions') or '').split()
            mod = 'all' if '*' in lv else 'version_%d' % ver
            for fname, d in flag_vars(corpus, v, c):
                out.append(('login', 'wow_login_messages::%s::%s_%s' % (mod, name, fname), d))
    return out


def norm(s):
    return re.sub(r'[^a-z0-9]', '', s.lower())


def worker(job):
    dump, items = job
    prog = Prog(dump)
    inv = Inventory(prog)
    ex = Exec(prog)
    out = []
    nq = 0
    for path, ty, fields, width in items:
        r = {'path': path, 'viol': [], 'inc': [], 'methods': 0}
        try:
            methods = inv.by_type.get(str(ty), {})
            adt = prog.adt(ty)
            fl = adt['variants'][0]['fields']
            if not fl or fl[0]['name'] != 'inner':
                r['inc'].append('%s: first field is not the raw value' % path)
                out.append(r)
                continue
            w = prog.int_info(fl[0]['ty'])[0]
            v = z3.BitVec('v', w)
            nopt = len(fl) - 1

            def self_val():
                return Agg([v] + [EnumV(0, []) for _ in range(nopt)])
            by_norm = {}
            for (tr, mn), root in methods.items():
                if tr is None or tr == '':
                    by_norm[mn] = (mn, root['key'])

            def run(key, args_fn):
                ex.set_assumptions([])
                return [P for P in ex.explore_guided(key, args_fn) if P.status != 'infeasible']

            def inner_of(res):
                if isinstance(res, Agg):
                    return res.f[0]
                raise Unsupported('result %r' % (res,))

            cur = {'nextra': 0}

            def decide(mname, P, got, want, what):
                nonlocal nq
                s = z3.Solver()
                s.set('timeout', 20000)
                s.add(*P.pc)
                s.add(got != want)
                nq += 1
                c = s.check()
                if c == z3.sat:
                    m = s.model()
                    val = m.eval(v, model_completion=True).as_long()
                    r['viol'].append({'method': mname, 'what': what, 'inner': val, 'got': m.eval(got, model_completion=True).as_long(), 'want': m.eval(want, model_completion=True).as_long(), 'nopt': nopt, 'nextra': cur['nextra']})
                elif c != z3.unsat:
                    r['inc'].append('%s::%s: solver gave no verdict' % (path, mname))
            for fname, fval in fields:
                X = BV(fval, w)
                n = '_' + fname.lower()
                for pre, spec in (('clear', lambda x: x & ~X), ('set', lambda x: x | X), ('new', lambda x: X)):
                    hit = by_norm.get(pre + n)
                    if not hit:
                        continue
                    mname, key = hit
                    try:
                        argt = prog.arg_types(key)
                        nargs = len(argt)
                        extra = []
                        first_self = pre != 'new'
                        for ai in range(1 if first_self else 0, nargs):
                            extra.append(ex.fresh_value(argt[ai], 'a%d' % ai))
                        cur['nextra'] = len(extra)
                        paths = run(key, lambda: ([self_val()] if first_self else []) + list(extra))
                        r['methods'] += 1
                        for P in paths:
                            if P.status != 'ret':
                                r['inc'].append('%s::%s: path ends in %s %s' % (path, mname, P.status, P.detail[:80]))
                                continue
                            got = inner_of(P.result)
                            decide(mname.split('::')[-1], P, got, spec(v), '%s_%s must leave %s' % (pre, fname.lower(), {'clear': 'inner & !%s' % fname, 'set': 'inner | %s' % fname, 'new': fname}[pre]))
                    except Unsupported as e:
                        if 'fresh value' in str(e):
                            r['skipped'] = r.get('skipped', 0) + 1      # argument type holds vectors / enums: not instantiated
                        else:
                            r['inc'].append('%s::%s: %s' % (path, mname, str(e)[:120]))
            for mn, spec in (('empty', None), ('is_empty', None)):
                hit = by_norm.get(mn)
                if not hit:
                    continue
                mname, key = hit
                try:
                    cur['nextra'] = 0
                    if mn == 'empty':
                        for P in run(key, lambda: []):
                            if P.status == 'ret':
                                r['methods'] += 1
                                decide('empty', P, inner_of(P.result), BV(0, w), 'empty() must have raw value 0')
                    else:
                        for P in run(key, lambda: [Ref(Cell(self_val()))]):
                            if P.status == 'ret':
                                r['methods'] += 1
                                res = P.result
                                res = res if z3.is_bool(res) else (res != 0)
                                s = z3.Solver()
                                s.add(*P.pc)
                                s.add(res != (v == 0))
                                nq += 1
                                if s.check() == z3.sat:
                                    val = s.model().eval(v, model_completion=True).as_long()
                                    r['viol'].append({'method': 'is_empty', 'what': 'is_empty() must be inner == 0 when no member is set', 'inner': val, 'got': 0, 'want': 0, 'nopt': nopt, 'nextra': 0})
                except Unsupported as e:
                    r['inc'].append('%s::%s: %s' % (path, mname, str(e)[:120]))
        except Exception:
            import traceback
            r['inc'].append('%s: checker exception %s' % (path, traceback.format_exc()[-300:]))
        out.append(r)
    return out, nq


def check(ck, corpus, only=None):
    tg = targets(corpus)
    ntypes = nmeth = nq = nskip = 0
    for kind in ('world', 'login'):
        mine = [(p, d) for k, p, d in tg if k == kind and (not only or only in p)]
        if not mine:
            continue
        deps = ['wow_world_messages', 'wow_world_base'] if kind == 'world' else ['wow_login_messages']
        items = {}
        for i, (p, d) in enumerate(mine):
            items['fs|' + p] = 'pub fn fs_%d(_x: &%s) {}' % (i, p)
        dep_roots = [{'crate': deps[0], 'pats': PATS, 'targs': []}]
        out, dropped = mirdump.dump_items('flagstructs_' + kind, deps, items, dep_roots, extra_rs='pub fn __templates() {}\n')
        prog = Prog(out)
        inv = Inventory(prog)
        lib = open(os.path.join(os.path.dirname(out), 'src', 'lib.rs')).read().splitlines()
        item_fn = {}
        for line in lib:
            m = re.search(r'pub fn (\w+)\(.*/\*ITEM:(.*?)\*/', line)
            if m:
                item_fn[m.group(2)] = m.group(1)
        jobs = []
        seen = set()
        for p, d in mine:
            if 'fs|' + p in dropped:
                continue       # no such synthesised type under this name (e.g. the flag is only passed through)
            fn = item_fn.get('fs|' + p)
            t = inv.type_of_local_arg(fn, 0) if fn else None
            if t is None:
                continue
            ty = prog.tk(t)['Ref'][1]
            fields = [(f['name'], f['value']) for f in d['fields']]
            key = (str(ty), json.dumps(fields))
            if key in seen:
                continue
            seen.add(key)
            jobs.append((p, ty, fields, wowm.int_type_info(d['ty'])[0] * 8))
        ntypes += len(jobs)
        nproc = min(NCPU, max(1, len(jobs)))
        chunks = [c for c in (jobs[j::nproc] for j in range(nproc)) if c]
        with mp.Pool(nproc) as pool:
            results = pool.map(worker, [(out, c) for c in chunks])
        pending = []
        for res, q in results:
            nq += q
            for r in res:
                nmeth += r['methods']
                nskip += r.get('skipped', 0)
                ck.inconclusive.extend(r['inc'][:3])
                for vv in r['viol']:
                    pending.append((r['path'], vv))
        # native replay: T::new(inner, None, ...) is public; the raw value is read back from the Debug rendering
        cases = []
        for path, vv in pending:
            m = vv['method']
            nones = ', '.join(['None'] * vv['nopt'])
            base = '%s::new(%d%s)' % (path, vv['inner'], (', ' + nones) if nones else '')
            dflt = ', '.join(['Default::default()'] * vv['nextra'])
            if m.startswith('new_'):
                expr = 'format!("{:?}", %s::%s(%s))' % (path, m, dflt)
            elif m == 'empty':
                expr = 'format!("{:?}", %s::empty())' % path
            elif m == 'is_empty':
                expr = 'format!("inner: {}", if %s.is_empty() { 1 } else { 0 })' % base
            else:
                expr = 'format!("{:?}", %s.%s(%s))' % (base, m, dflt)
            cases.append(('%s::%s/%d' % (path, m, vv['inner']), expr))
        outs = {}
        if cases:
            try:
                outs = native.eval_cases('world' if kind == 'world' else 'login', cases)
            except Exception as e:
                ck.inconclusive.append('native replay of flag-struct counterexamples failed to build: %s' % str(e)[-300:])
        for (path, vv), (key, expr) in zip(pending, cases):
            o = outs.get(key)
            got_native = None
            if o:
                mm = re.search(r'inner: (\d+)', o[0] or '')
                got_native = int(mm.group(1)) if mm else None
            confirmed = got_native is not None and (got_native != vv['want'] if vv['method'] != 'is_empty' else True)
            ck.violation('%s::%s/raw' % (path, vv['method']), '%s: %s; for inner=%#x the method leaves %#x, expected %#x; native=%r' % (path, vv['what'], vv['inner'], vv['got'], vv['want'], o),
                         dict(vv, type=path, rust=expr, native=o), confirmed=confirmed)
    ck.sample({'synthesised_flag_structs': ntypes, 'accessor_methods_checked': nmeth, 'set_new_methods_skipped_for_argument_type': nskip, 'queries': nq})
    return ntypes, nmeth, nq
