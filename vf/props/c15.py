"""C15 - DateTime accepts exactly real calendar instants; accessors invert its packing.
Deciding engine: Kani/CBMC over all 2^32 words of the compiled wow_world_base code."""
import datetime
import os
from ..common import Check, VERIF, log
from .. import kani, native

HARNESSES = [
    ('accepts_only_valid', 'accepted value that is not a real calendar instant'),
    ('accepts_all_valid', 'real calendar instant rejected'),
    ('accessors_invert', 'accessor / integer form differs from the bit field'),
]
DEPS = 'wow_world_base = { path = "{REPO}/wow_world_base", features = ["shared"] }'


def py_spec(v):
    """Third opinion for replays: Python's own calendar."""
    mi, h, wd, md, mo, y = v & 63, (v >> 6) & 31, (v >> 11) & 7, (v >> 14) & 63, (v >> 20) & 15, (v >> 24) & 255
    if mi >= 60 or h >= 24 or mo >= 12 or wd >= 7:
        return False
    try:
        d = datetime.date(2000 + y, mo + 1, md + 1)
    except ValueError:
        return False
    return (d.weekday() + 1) % 7 == wd   # python: Monday=0; wire: Sunday=0


def native_verdict(v):
    """Replay one word against the real build (dev and release). Returns (is_violation, description)."""
    outs = []
    for rel in (False, True):
        r = native.run('replay_base', ['datetime', v], release=rel)
        outs.append(r.stdout.strip())
    line = outs[0]
    ok = ' ok ' in line
    want = py_spec(v)
    mi, h, wd, md, mo, y = v & 63, (v >> 6) & 31, (v >> 11) & 7, (v >> 14) & 63, (v >> 20) & 15, (v >> 24) & 255
    desc = 'v=0x%08x (y=%d month0=%d day0=%d weekday=%d %02d:%02d): library %s, calendar says %s' % (
        v, y, mo, md, wd, h, mi, 'accepts' if ok else 'rejects', 'valid' if want else 'invalid')
    if outs[0] != outs[1]:
        return True, desc + ' [dev/release differ: %r vs %r]' % (outs[0], outs[1])
    if ok != want:
        return True, desc
    if ok:
        names = {'Sunday': 0, 'Monday': 1, 'Tuesday': 2, 'Wednesday': 3, 'Thursday': 4, 'Friday': 5, 'Saturday': 6}
        kv = dict(p.split('=') for p in line.split()[2:])
        got = (int(kv['minutes']), int(kv['hours']), names[kv['weekday']], int(kv['month_day']), int(kv['month']), int(kv['year']))
        if int(kv['as_int']) != v or got != (mi, h, wd, md, mo, y):
            return True, desc + ' accessors=%r' % (kv,)
    return False, desc


def classify(v):
    mi, h, wd, md, mo, y = v & 63, (v >> 6) & 31, (v >> 11) & 7, (v >> 14) & 63, (v >> 20) & 15, (v >> 24) & 255
    return 'datetime:month_day'  # site key refined below


def run(tier, only=None):
    ck = Check('C15', tier, 'model_checking')
    src = open(os.path.join(VERIF, 'kani', 'c15', 'lib.rs')).read()
    d = kani.prepare('c15', DEPS, {'lib.rs': src})
    fns = ['wow_world_base::shared::DateTime::try_from(u32)', 'DateTime::{as_int,minutes,hours,weekday,month_day,month,years_after_2000,new}',
           'Month::{try_from,maximum_days,days_from_previous_months,iso8601}', 'Weekday::try_from', 'predicted_weekday', 'leap_year']
    total_s = 0.0
    queries = 0
    covers = []
    for h, what in HARNESSES:
        if only and only not in h:
            continue
        r = kani.run(d, 'proofs::' + h, timeout=1800 if tier == 'quick' else 7200)
        total_s += r['secs']
        queries += 1
        log('  kani %s: %s in %.0fs' % (h, r['status'], r['secs']))
        cs = kani.cover_status(r['out'])
        covers += [(h, c, s) for c, s in cs]
        if r['status'] == 'success':
            if any(s != 'SATISFIED' for _, s in cs):
                ck.inconclusive.append('%s: vacuity witness not satisfied %r' % (h, cs))
            ck.sample({'harness': h, 'verdict': 'holds for all 2^32 words', 'solver_s': r['secs']})
            continue
        if r['status'] != 'failed' or not r['values']:
            ck.inconclusive.append('%s: kani %s' % (h, r['status']))
            log(r['out'][-1500:])
            continue
        v = int.from_bytes(bytes(r['values'][0][:4]), 'little')
        bad, desc = native_verdict(v)
        mo = (v >> 20) & 15
        md = (v >> 14) & 63
        key = 'DateTime::try_from/%s' % h
        ck.sample({'harness': h, 'verdict': 'counterexample', 'value': v, 'native': desc})
        ck.violation(key, what + ': ' + desc, {'value': v, 'harness': h, 'failed_checks': r['failed_checks'], 'native': desc,
                                                'cmd': './check C15 --replay <this file>'}, confirmed=bad)
    ck.assume('Kani 0.68 / CBMC 6.11 model of the dev-profile build of wow_world_base (feature shared)')
    ck.assume('reference calendar predicate: kani/c15/lib.rs (loop over years and months from 2000-01-01 = Saturday); replays are re-judged with Python datetime')
    rc = ck.finish({'states': 2 ** 32, 'transitions': 2 ** 32, 'traces_validated_against_impl': len(ck.violations) + len(ck.known_hits),
                    'exhaustive': True, 'functions_encoded': fns, 'bounds': 'none on the input (all 2^32 words); loop unwinding 258 with unwinding assertions',
                    'queries': queries, 'solver_s': round(total_s, 1), 'vacuity_witnesses': [list(c) for c in covers],
                    'rule': 'one CBMC query per harness; each decides its assertion for every u32'}, fail_on_inconclusive=True)
    return rc


def replay(path):
    import json
    j = json.load(open(path))
    bad, desc = native_verdict(int(j['value']))
    print(desc)
    if bad:
        print('VIOLATION property=C15 replay=%s' % path)
        return 1
    return 0
