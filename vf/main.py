"""./check <id> [--tier quick|thorough] [--replay path]"""
import argparse
import importlib
import os
import sys
import traceback


def main():
    ap = argparse.ArgumentParser()
    ap.add_argument('prop')
    ap.add_argument('--tier', default=os.environ.get('VERIF_TIER', 'quick'), choices=['quick', 'thorough'])
    ap.add_argument('--replay', default=None)
    ap.add_argument('--only', default=None, help='restrict to targets matching this substring (debugging)')
    a = ap.parse_args()
    prop = a.prop.upper()
    try:
        mod = importlib.import_module('vf.props.' + prop.lower())
    except ModuleNotFoundError as e:
        print('no check for %s (%s)' % (prop, e))
        sys.exit(3)
    try:
        if a.replay:
            rc = mod.replay(a.replay)
        else:
            rc = mod.run(a.tier, only=a.only)
    except Exception:
        traceback.print_exc()
        print('%s: check machinery failed (not a verdict about the property)' % prop)
        sys.exit(3)
    sys.exit(rc)


if __name__ == '__main__':
    main()
