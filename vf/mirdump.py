"""Build a roots crate against the repo's current tree and dump monomorphised MIR with tools/mirdump."""
import hashlib
import json
import os
import shutil
import time
from .common import VERIF, REPO, WORK, GUARD, sh, log, tree_hash
from . import models

BIN = os.path.join(WORK, 'bin', 'mirdump')
TARGET = os.path.join(WORK, 'mir-target')

DEP_TOML = {
    'wow_world_base': 'wow_world_base = { path = "{REPO}/wow_world_base", features = ["vanilla", "tbc", "wrath", "shared", "extended"] }',
    'wow_world_messages': 'wow_world_messages = { path = "{REPO}/wow_world_messages", default-features = false, features = ["vanilla", "tbc", "wrath", "sync", "tokio", "async-std", "encryption"] }',
    'wow_login_messages': 'wow_login_messages = { path = "{REPO}/wow_login_messages", default-features = false, features = ["sync", "tokio", "async-std"] }',
    'tokio': 'tokio = { version = "1", features = ["io-util"] }',
    'async-std': 'async-std = { version = "1" }',
    'wow_srp': 'wow_srp = { version = "0.7", default-features = false, features = ["srp-default-math", "wrath-header", "tbc-header"] }',
}
CRATE_DIRS = {'wow_world_base': ['wow_world_base'], 'wow_world_messages': ['wow_world_messages', 'wow_world_base'],
              'wow_login_messages': ['wow_login_messages']}


def ensure_bin():
    src = os.path.join(VERIF, 'tools', 'mirdump', 'mirdump.rs')
    if not os.path.exists(BIN) or os.path.getmtime(BIN) < os.path.getmtime(src):
        r = sh([os.path.join(VERIF, 'tools', 'mirdump', 'build.sh')], timeout=900)
        if not os.path.exists(BIN):
            raise RuntimeError('mirdump build failed:\n' + r.stdout[-3000:])


def sysroot():
    return sh(['rustc', '+nightly', '--print', 'sysroot']).stdout.strip()


def dump(name, deps, roots_rs, dep_roots, stop=None, extra_toml='', features=None, force=False):
    """name: cache name; deps: list of keys of DEP_TOML (or raw toml lines); roots_rs: source of the roots crate;
    dep_roots: [{'crate','pats','targs'}]. Returns path of the dump file (cached on a hash of spec + sources)."""
    ensure_bin()
    stop = models.STOP if stop is None else stop
    d = os.path.join(WORK, 'mir', name)
    os.makedirs(os.path.join(d, 'src'), exist_ok=True)
    dep_lines = []
    dirs = set()
    for k in deps:
        line = DEP_TOML.get(k, k)
        if features and k in features:
            line = features[k]
        dep_lines.append(line.replace('{REPO}', REPO))
        for sd in CRATE_DIRS.get(k, []):
            dirs.add(sd)
    toml = '[package]\nname = "roots"\nversion = "0.0.0"\nedition = "2021"\n\n[workspace]\n\n[lib]\npath = "src/lib.rs"\n\n[dependencies]\n%s\n%s\n' % ('\n'.join(dep_lines), extra_toml)
    out = os.path.join(d, 'dump.jsonl')
    spec = {'crate': 'roots', 'out': out, 'stop': stop, 'roots': dep_roots, 'local_roots': True}
    th = tree_hash(sorted(dirs) + ['Cargo.lock'], extra=json.dumps(spec, sort_keys=True) + toml + roots_rs + open(os.path.join(VERIF, 'tools', 'mirdump', 'mirdump.rs')).read())
    stamp = os.path.join(d, 'stamp')
    if not force and os.path.exists(out) and os.path.exists(stamp) and open(stamp).read() == th:
        return out
    _w(os.path.join(d, 'Cargo.toml'), toml)
    # always rewrite lib.rs with a nonce comment so cargo re-runs the driver on the roots crate
    with open(os.path.join(d, 'src', 'lib.rs'), 'w') as f:
        externs = ''.join('extern crate %s;\n' % k.replace('-', '_') for k in deps if k in CRATE_DIRS)
        f.write('// %s\n#![allow(unused, non_snake_case, clippy::all)]\n' % th + externs + roots_rs)
    lock = os.path.join(REPO, 'Cargo.lock')
    if os.path.exists(lock):
        shutil.copy(lock, os.path.join(d, 'Cargo.lock'))
    specp = os.path.join(d, 'spec.json')
    json.dump(spec, open(specp, 'w'))
    if os.path.exists(out):
        os.remove(out)
    sr = sysroot()
    env = {'RUSTC': BIN, 'LD_LIBRARY_PATH': sr + '/lib' + (':' + os.environ['LD_LIBRARY_PATH'] if os.environ.get('LD_LIBRARY_PATH') else ''),
           'RUSTFLAGS': '--cfg %s -Zalways-encode-mir -Awarnings' % GUARD, 'MIRDUMP_SPEC': specp, 'CARGO_TARGET_DIR': TARGET,
           'RUSTUP_TOOLCHAIN': 'nightly'}
    t0 = time.time()
    r = sh(['cargo', '+nightly', 'check', '--offline', '--lib', '-q', '--color', 'never'], cwd=d, env=env, timeout=3600)
    if r.returncode != 0 or not os.path.exists(out):
        raise RuntimeError('mirdump build of %s failed (rc %d):\n%s' % (name, r.returncode, r.stdout[-6000:]))
    open(stamp, 'w').write(th)
    log('  mirdump %s: %.0fs, %.1f MB' % (name, time.time() - t0, os.path.getsize(out) / 1e6))
    return out


def dump_bin(name, crate_dir, crate, pats, stop=None):
    """dump selected functions (name contains one of pats) of a binary crate compiled in place (crate_dir is a scratch
    copy; the target directory is ours)"""
    ensure_bin()
    stop = models.STOP if stop is None else stop
    d = os.path.join(WORK, 'mir', name)
    os.makedirs(d, exist_ok=True)
    out = os.path.join(d, 'dump.jsonl')
    spec = {'crate': crate, 'out': out, 'stop': stop, 'roots': [], 'local_roots': True, 'local_pats': pats}
    specp = os.path.join(d, 'spec.json')
    json.dump(spec, open(specp, 'w'))
    if os.path.exists(out):
        os.remove(out)
    sr = sysroot()
    env = {'RUSTC': BIN, 'LD_LIBRARY_PATH': sr + '/lib' + (':' + os.environ['LD_LIBRARY_PATH'] if os.environ.get('LD_LIBRARY_PATH') else ''),
           'RUSTFLAGS': '-Zalways-encode-mir -Awarnings', 'MIRDUMP_SPEC': specp, 'CARGO_TARGET_DIR': os.path.join(WORK, 'mir-target-gen'), 'RUSTUP_TOOLCHAIN': 'nightly'}
    # touch main.rs so that cargo re-runs the driver on the crate itself
    mainrs = os.path.join(crate_dir, 'src', 'main.rs')
    os.utime(mainrs, None)
    t0 = time.time()
    r = sh(['cargo', '+nightly', 'check', '--offline', '--bin', crate, '-q', '--color', 'never'], cwd=crate_dir, env=env, timeout=3600)
    if r.returncode != 0 or not os.path.exists(out):
        raise RuntimeError('mirdump build of %s failed (rc %d):\n%s' % (name, r.returncode, r.stdout[-4000:]))
    log('  mirdump %s: %.0fs, %.1f MB' % (name, time.time() - t0, os.path.getsize(out) / 1e6))
    return out


class DumpError(RuntimeError):
    pass


def dump_items(name, deps, items, dep_roots, extra_rs='', max_rounds=6):
    """items: {item_id: one-line Rust item}. Items that do not compile are dropped (reported back) and the dump is
    retried. Returns (dump path, {item_id: error text} for dropped items)."""
    import re
    dropped = {}
    items = dict(items)
    dirs = set()
    for k in deps:
        for sd in CRATE_DIRS.get(k, []):
            dirs.add(sd)
    th0 = tree_hash(sorted(dirs) + ['Cargo.lock'], extra=json.dumps(sorted(items.items())) + extra_rs)
    dcache = os.path.join(WORK, 'mir', name, 'dropped_%s.json' % th0)
    if os.path.exists(dcache):
        dropped = json.load(open(dcache))
        for b in dropped:
            items.pop(b, None)
    for _ in range(max_rounds):
        ids = sorted(items)
        src = extra_rs + '\n' + '\n'.join('%s /*ITEM:%s*/' % (items[i], i) for i in ids) + '\n'
        try:
            out = dump(name, deps, src, dep_roots)
            json.dump(dropped, open(dcache, 'w'))
            return out, dropped
        except RuntimeError as e:
            text = str(e)
            lib = open(os.path.join(WORK, 'mir', name, 'src', 'lib.rs')).read().splitlines()
            bad = {}
            cur = None
            for line in text.splitlines():
                m = re.match(r'^error(\[E\d+\])?: (.*)', line)
                if m:
                    cur = m.group(2)
                m = re.match(r'^\s*--> src/lib.rs:(\d+):', line)
                if m and cur:
                    ln = int(m.group(1)) - 1
                    if 0 <= ln < len(lib):
                        mm = re.search(r'/\*ITEM:(.*?)\*/', lib[ln])
                        if mm:
                            bad[mm.group(1)] = cur
                    cur = None
            if not bad:
                raise
            for b, why in bad.items():
                dropped[b] = why
                items.pop(b, None)
    raise DumpError('too many failing items in roots crate %s' % name)


def _w(p, text):
    if os.path.exists(p) and open(p).read() == text:
        return
    open(p, 'w').write(text)


def list_defs(name, deps, dep_roots):
    """names of the fn defs of dependency crates matching patterns (no bodies)"""
    ensure_bin()
    d = os.path.join(WORK, 'mir', name)
    os.makedirs(os.path.join(d, 'src'), exist_ok=True)
    raise NotImplementedError
