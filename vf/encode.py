"""Canonical encodings from the independent wowm reading (DESIGN.md 2.2): for a container and a *shape* (a choice for
every control dimension: branch taken, optional present, array count, string length, mask pattern) produce the list
of byte terms of the canonical encoding over fresh symbolic field variables plus the validity predicate."""
import random
import zlib
import re
import z3
from . import wowm

BV = z3.BitVecVal

ALIASES = {
    'Gold': 'u32', 'Level': 'u8', 'Level16': 'u16', 'Level32': 'u32', 'Seconds': 'u32', 'Milliseconds': 'u32', 'Spell': 'u32',
    'Spell16': 'u16', 'Item': 'u32', 'Guid': 'u64', 'Population': 'f32', 'f32': 'f32', 'IpAddress': 'u32_be',
}
STRING_TYPES = ('CString', 'SizedCString', 'String')


class Infeasible(Exception):
    pass


class NotSupported(Exception):
    pass


class Bounds:
    def __init__(self, tier):
        quick = tier.startswith('quick')
        self.array_counts = [1, 0, 2] if quick else [1, 0, 2, 3]
        self.string_lens = [1, 0, 2] if quick else [1, 0, 2, 3]
        self.endless_counts = [1, 0, 2] if quick else [1, 0, 2, 3]
        self.mask_patterns = 4
        self.max_shapes = 24 if quick else 120
        if tier == 'quick-sizes':
            self.max_shapes = 6

    def describe(self):
        return {'variable_array_counts': sorted(self.array_counts), 'string_lengths': sorted(self.string_lens),
                'endless_array_counts': sorted(self.endless_counts), 'max_shapes_per_message': self.max_shapes}


class Chooser:
    """decision oracle for one shape: choices default to option 0 unless overridden / randomised"""

    def __init__(self, overrides=None, rng=None):
        self.overrides = overrides or {}
        self.rng = rng
        self.seen = []       # (label, n, chosen)

    def choose(self, label, n):
        if n <= 1:
            return 0
        if label in self.overrides:
            c = self.overrides[label] % n
        elif self.overrides.get('__else__') and '.if(' in label:
            c = n - 1        # take no branch / the else branch of every if: the shape that can host any other value
        elif self.rng is not None:
            c = self.rng.randrange(n)
        else:
            c = 0
        self.seen.append((label, n, c))
        return c


class Var:
    __slots__ = ('kind', 'definer', 'term', 'width', 'name')

    def __init__(self, kind, definer, term, width, name):
        self.kind = kind
        self.definer = definer
        self.term = term
        self.width = width
        self.name = name


class Encoding:
    def __init__(self):
        self.bytes = []
        self.cons = []
        self.fields = []     # (path, type, first byte index, last byte index+1, term or None)
        self.enum_sites = []  # for C04: dicts
        self.notes = []


def le_bytes(term, nbytes):
    return [z3.Extract(8 * i + 7, 8 * i, term) for i in range(nbytes)]


class Encoder:
    def __init__(self, corpus, view, bounds, chooser, tag=''):
        self.c = corpus
        self.view = view
        self.b = bounds
        self.ch = chooser
        self.e = Encoding()
        self.n = 0
        self.tag = tag

    # ------------------------------------------------------------------ helpers
    def fresh(self, path, width):
        self.n += 1
        return z3.BitVec('%s%s' % (self.tag, path), width)

    def emit(self, bs):
        self.e.bytes.extend(bs)

    def definer(self, name):
        return self.view['definers'].get(name)

    def container_def(self, name):
        return self.view['containers'].get(name)

    # ------------------------------------------------------------------ top level
    def message(self, c):
        self.container(c, c['name'], top=True)
        return self.e

    def container(self, c, path, top=False):
        scope = {}
        self._sizes = getattr(self, '_sizes', [])
        self._sizes.append([])
        self.members(c['members'], path, scope, c, top)
        for (x, first, nbytes) in self._sizes.pop():
            # self.size: the number of bytes of this object that follow the size field
            self.e.cons.append(x == BV(len(self.e.bytes) - (first + nbytes), nbytes * 8))

    def members(self, ms, path, scope, c, top):
        for i, m in enumerate(ms):
            k = m['k']
            if k == 'decl':
                self.decl(m, path, scope, c, top, is_last=(i == len(ms) - 1))
            elif k == 'if':
                self.ifs(m, path, scope, c, top)
            elif k == 'optional':
                if self.ch.choose(path + '.' + m['name'] + '?', 2) == 0:
                    self.members(m['members'], path + '.' + m['name'], scope, c, top)
            elif k == 'unimplemented':
                raise NotSupported('unimplemented member')

    # ------------------------------------------------------------------ conditions
    def ifs(self, m, path, scope, c, top):
        var = m['branches'][0][0][0][0]
        v = scope.get(var)
        if v is None:
            raise NotSupported('if on unknown variable %s' % var)
        nb = len(m['branches'])
        k = self.ch.choose('%s.if(%s)@%d' % (path, var, id(m) % 100000), nb + 1)
        d = v.definer
        vals = {f['name']: f['value'] for f in d['fields']}
        x = v.term

        def cond_true(conds):
            alts = []
            for (vn, op, en) in conds:
                if vn != var:
                    raise NotSupported('mismatched if variable')
                if en not in vals:
                    raise NotSupported('enumerator %s not in %s' % (en, d['name']))
                ev = BV(vals[en], v.width)
                if op == '==':
                    alts.append(x == ev)
                elif op == '!=':
                    alts.append(x != ev)
                elif op == '&':
                    if vals[en] == 0:
                        alts.append(x == 0)
                    else:
                        alts.append((x & ev) != 0)
                else:
                    raise NotSupported('operator ' + op)
            return z3.Or(*alts) if len(alts) > 1 else alts[0]
        conds = [cond_true(b[0]) for b in m['branches']]
        if k < nb:
            for j in range(k):
                self.e.cons.append(z3.Not(conds[j]))
            self.e.cons.append(conds[k])
            self.members(m['branches'][k][1], path, scope, c, top)
        else:
            for j in range(nb):
                self.e.cons.append(z3.Not(conds[j]))
            if m['els'] is not None:
                self.members(m['els'], path, scope, c, top)

    # ------------------------------------------------------------------ declarations
    def decl(self, m, path, scope, c, top, is_last):
        p = path + '.' + m['name']
        if m['arr'] is not None:
            return self.array(m, p, scope, c, top)
        start = len(self.e.bytes)
        term = self.value(m['ty'], p, scope, m, c)
        self.e.fields.append((p, m['ty'], start, len(self.e.bytes), term))

    def value(self, ty, p, scope, m, c):
        """encode one value of type ty at path p; returns the symbolic term when scalar"""
        up = m.get('up') if m else None
        tags = dict(m['tags']) if m else {}
        const = m.get('val') if m else None
        base = ALIASES.get(ty, ty)
        ii = wowm.int_type_info(base)
        if ii and not up:
            nbytes, signed, be = ii
            x = self.fresh(p, nbytes * 8)
            if const is not None:
                if const == 'self.size':
                    self._sizes[-1].append((x, len(self.e.bytes), nbytes))
                else:
                    self.e.cons.append(x == BV(wowm.parse_value(const), nbytes * 8))
            if 'valid_range' in tags:
                pass   # documented but not enforced by the codecs; values stay free
            if ty in ('Level16', 'Level32'):
                # ambiguity policy (DESIGN 2.2): a level is canonical up to 255
                self.e.cons.append(z3.ULE(x, 255))
            bs = le_bytes(x, nbytes)
            if be:
                bs = list(reversed(bs))
            if base == 'u48':
                pass   # u32 low LE then u16 high LE == 6 bytes LE
            self.emit(bs)
            if m is not None and const is None:
                scope[m['name']] = Var('int', None, x, nbytes * 8, m['name'])
            return x
        if base == 'f32':
            x = self.fresh(p, 32)
            self.emit(le_bytes(x, 4))
            return x
        if ty in ('Bool', 'Bool32'):
            n = 1 if ty == 'Bool' else 4
            x = self.fresh(p, n * 8)
            self.e.cons.append(z3.ULE(x, 1))
            self.emit(le_bytes(x, n))
            return x
        if ty == 'DateTime':
            x = self.fresh(p, 32)
            from .models import DT_VALID
            self.e.cons.append(DT_VALID(x))
            self.emit(le_bytes(x, 4))
            return x
        if ty in STRING_TYPES:
            return self.string(ty, p, tags)
        if ty == 'PackedGuid':
            return self.packed_guid(p)
        if ty == 'NamedGuid':
            x = self.fresh(p + '.guid', 64)
            self.emit(le_bytes(x, 8))
            if self.ch.choose(p + '#named', 2) == 0:
                self.e.cons.append(x != 0)
                self.string('CString', p + '.name', {})
            else:
                self.e.cons.append(x == 0)
            return x
        if ty == 'VariableItemRandomProperty':
            x = self.fresh(p + '.id', 32)
            self.emit(le_bytes(x, 4))
            if self.ch.choose(p + '#suffix', 2) == 0:
                self.e.cons.append(x != 0)
                y = self.fresh(p + '.suffix', 32)
                self.emit(le_bytes(y, 4))
            else:
                self.e.cons.append(x == 0)
            return x
        if ty in ('AuraMask', 'CacheMask', 'EnchantMask', 'InspectTalentGearMask'):
            return self.mask(ty, p, c)
        if ty in ('AchievementDoneArray', 'AchievementInProgressArray'):
            return self.sentinel_array(ty, p, c)
        if ty == 'MonsterMoveSplines':
            return self.splines(p)
        d = self.definer(ty)
        if d is not None:
            return self.definer_value(d, p, scope, m, up)
        cd = self.container_def(ty)
        if cd is not None:
            if cd['k'] != 'struct':
                raise NotSupported('member of message type %s' % ty)
            self.container(cd, p)
            return None
        raise NotSupported('type %s' % ty)

    def definer_value(self, d, p, scope, m, up):
        bi = wowm.int_type_info(d['ty'])
        if bi is None:
            raise NotSupported('definer base %s' % d['ty'])
        nbytes, signed, be = bi
        if up:
            ui = wowm.int_type_info(up)
            if ui is None:
                raise NotSupported('upcast %s' % up)
            nbytes_w, _, be = ui
        else:
            nbytes_w = nbytes
        x = self.fresh(p, nbytes_w * 8)
        w = nbytes_w * 8
        if d['k'] == 'enum':
            vals = sorted(set(f['value'] % (1 << (nbytes * 8)) for f in d['fields']))
            if signed and up:
                raise NotSupported('signed enum upcast')
            valid = z3.Or(*[x == BV(v, w) for v in vals]) if len(vals) > 1 else (x == BV(vals[0], w))
            self.e.cons.append(valid)
            self.e.enum_sites.append({'path': p, 'definer': d['name'], 'first': len(self.e.bytes), 'nbytes': nbytes_w, 'be': be, 'term': x, 'values': vals, 'upcast': up, 'valid': valid})
        else:
            if nbytes_w > nbytes:
                self.e.cons.append(z3.ULT(x, BV(1 << (nbytes * 8), w)))
            if getattr(self.b, 'flag_declared_only', False):
                allbits = 0
                for f in d['fields']:
                    allbits |= f['value']
                self.e.cons.append((x & BV(~allbits & ((1 << w) - 1), w)) == 0)
        bs = le_bytes(x, nbytes_w)
        if be:
            bs = list(reversed(bs))
        self.emit(bs)
        if m is not None:
            scope[m['name']] = Var(d['k'], d, x, w, m['name'])
        return x

    def string(self, ty, p, tags):
        opts = self.b.string_lens
        n = opts[self.ch.choose(p + '#len', len(opts))]
        bs = [self.fresh('%s[%d]' % (p, i), 8) for i in range(n)]
        for b in bs:
            self.e.cons.append(b != 0)
        if n:
            from .models import utf8_valid
            self.e.cons.append(utf8_valid(bs))
        if ty == 'CString':
            self.emit(bs + [BV(0, 8)])
        elif ty == 'SizedCString':
            self.emit(le_bytes(BV(n + 1, 32), 4) + bs + [BV(0, 8)])
        else:  # String: u8 length + bytes
            self.emit([BV(n, 8)] + bs)
            # String contents may contain zero bytes in principle; canonical strings here are non-zero UTF-8
        return None

    def packed_guid(self, p):
        # canonical form: mask bit i set exactly when byte i of the guid is non-zero (what the documented writer emits)
        pats = [0x01, 0x00, 0xFF, 0x0A, 0x80, 0x81]
        k = self.ch.choose(p + '#mask', self.b.mask_patterns)
        mask = pats[k]
        self.emit([BV(mask, 8)])
        for i in range(8):
            if mask & (1 << i):
                b = self.fresh('%s.b%d' % (p, i), 8)
                self.e.cons.append(b != 0)
                self.emit([b])
        return None

    # ------------------------------------------------------------------ built-in masks and arrays (types/*.md)
    def mask(self, ty, p, c):
        exp = self.view.get('exp')
        if ty == 'AuraMask':
            width = 32 if exp == 'vanilla' else 64
            elem = 'u16' if exp == 'vanilla' else 'Aura'
        elif ty == 'CacheMask':
            width, elem = 32, 'u32'
        elif ty == 'EnchantMask':
            width, elem = 16, 'u16'
        else:
            width, elem = 32, 'InspectTalentGear'
        pats = [1, 0, 1 << (width - 1), 5]
        pat = pats[self.ch.choose(p + '#mask', len(pats))]
        self.emit(le_bytes(BV(pat, width), width // 8))
        for i in range(width):
            if pat & (1 << i):
                self.value(elem, '%s[%d]' % (p, i), {}, None, c)
        return None

    def sentinel_array(self, ty, p, c):
        elem = 'AchievementDone' if ty == 'AchievementDoneArray' else 'AchievementInProgress'
        opts = self.b.endless_counts
        n = opts[self.ch.choose(p + '#count', len(opts))]
        cd = self.container_def(elem)
        for i in range(n):
            start = len(self.e.bytes)
            self.container(cd, '%s[%d]' % (p, i))
            first = z3.Concat(*reversed(self.e.bytes[start:start + 4]))
            self.e.cons.append(first != BV(0xFFFFFFFF, 32))    # the first member is the achievement id; -1 terminates
        self.emit(le_bytes(BV(0xFFFFFFFF, 32), 4))
        return None

    def splines(self, p):
        opts = self.b.endless_counts
        n = opts[self.ch.choose(p + '#count', len(opts))]
        self.emit(le_bytes(BV(n, 32), 4))
        for i in range(n):
            if i == 0:
                for comp in 'xyz':
                    self.emit(le_bytes(self.fresh('%s[0].%s' % (p, comp), 32), 4))
            else:
                # packed word in the image of to_packed(from_packed(w)) (types/monster-move-spline.md): every component a multiple of 4
                w = self.fresh('%s[%d]' % (p, i), 32)
                self.e.cons.append(w & BV((3) | (3 << 11) | (3 << 22), 32) == 0)
                self.emit(le_bytes(w, 4))
        return None

    # ------------------------------------------------------------------ arrays
    def array(self, m, p, scope, c, top):
        arr = m['arr']
        tags = dict(m['tags'])
        if 'compressed' in tags:
            raise NotSupported('compressed array')
        if re.fullmatch(r'\d+', arr):
            n = int(arr)
        elif arr == '-':
            opts = self.b.endless_counts
            n = opts[self.ch.choose(p + '#count', len(opts))]
        else:
            v = scope.get(arr)
            if v is None or v.kind != 'int':
                raise NotSupported('array length variable %s' % arr)
            opts = self.b.array_counts
            n = opts[self.ch.choose(p + '#count', len(opts))]
            self.e.cons.append(v.term == BV(n, v.width))
        start = len(self.e.bytes)
        for i in range(n):
            s0 = len(self.e.bytes)
            term = self.value(m['ty'], '%s[%d]' % (p, i), {}, None, c)
            if getattr(self, 'record_elements', False):
                self.e.fields.append(('%s[%d]' % (p, i), m['ty'], s0, len(self.e.bytes), term))
        self.e.fields.append((p, m['ty'] + '[' + arr + ']', start, len(self.e.bytes), None))


def datetime_valid(x):
    """calendar predicate of C15 as a z3 formula over the 32-bit word"""
    mi = x & 63
    h = z3.LShR(x, 6) & 31
    wd = z3.LShR(x, 11) & 7
    md = z3.LShR(x, 14) & 63
    mo = z3.LShR(x, 20) & 15
    y = z3.LShR(x, 24) & 255
    year = y + 2000
    leap = z3.Or(z3.And(z3.URem(year, 4) == 0, z3.URem(year, 100) != 0), z3.URem(year, 400) == 0)
    mdays = z3.If(mo == 1, z3.If(leap, BV(29, 32), BV(28, 32)),
                  z3.If(z3.Or(mo == 3, mo == 5, mo == 8, mo == 10), BV(30, 32), BV(31, 32)))
    cum = [0, 31, 59, 90, 120, 151, 181, 212, 243, 273, 304, 334]
    before = BV(0, 32)
    for i in range(11, -1, -1):
        before = z3.If(mo == i, BV(cum[i], 32) + z3.If(z3.And(leap, BV(1 if i >= 2 else 0, 1) == 1), BV(1, 32), BV(0, 32)), before)
    # leap years in [2000, 2000+y): y>0: 1 + (y-1)/4 - (y-1)/100 + (y-1)/400 (2000 itself is a leap year)
    ym1 = y - 1
    leaps = z3.If(y == 0, BV(0, 32), 1 + z3.UDiv(ym1, BV(4, 32)) - z3.UDiv(ym1, BV(100, 32)) + z3.UDiv(ym1, BV(400, 32)))
    days = y * 365 + leaps + before + md
    return z3.And(z3.ULT(mi, 60), z3.ULT(h, 24), z3.ULT(mo, 12), z3.ULT(md, mdays), z3.ULT(wd, 7), wd == z3.URem(6 + days, BV(7, 32)))


def shapes(corpus, view, container, bounds, seed=0, record_elements=False):
    """generator of (Encoding, chooser) over the covered shapes: baseline, every single-dimension variation, then
    seeded random combinations up to the cap. Infeasible shapes are skipped (decided by the caller's solver)."""
    done = set()
    queue = [{}, {'__else__': True}]
    out = 0
    rng = random.Random(seed * 7919 + zlib.crc32(container['name'].encode()) % 1000)
    tried = 0
    while queue and out < bounds.max_shapes and tried < bounds.max_shapes * 6:
        ov = queue.pop(0)
        tried += 1
        ch = Chooser(ov, rng if ov.get('__random__') else None)
        enc = Encoder(corpus, view, bounds, ch)
        enc.record_elements = record_elements
        e = enc.message(container)
        sig = tuple((l, c) for l, n, c in ch.seen)
        if sig in done:
            continue
        done.add(sig)
        out += 1
        yield e, ch
        if not ov.get('__random__') and not ov.get('__else__'):
            for l, n, c in ch.seen:
                for alt in range(n):
                    if alt != c and l not in ov:
                        nov = dict(ov)
                        nov[l] = alt
                        if len(nov) <= 2:
                            queue.append(nov)
        if not queue and out < bounds.max_shapes:
            queue.append({'__random__': out + 1})
