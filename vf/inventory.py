"""Inventory of a dump's root functions grouped by the Rust type they belong to (decided from signatures, not paths:
def names are compiler 'visible paths' and differ between re-exports)."""
import re
from .mirsym import Prog


def strip_turbofish(name):
    # 'a::b::m::<X, Y>' -> 'a::b::m' (only a trailing generic argument list)
    if name.endswith('>'):
        depth = 0
        for i in range(len(name) - 1, -1, -1):
            ch = name[i]
            if ch == '>' and (i == 0 or name[i - 1] != '-'):
                depth += 1
            elif ch == '<':
                depth -= 1
                if depth == 0:
                    if name[:i].endswith('::'):
                        return name[:i - 2]
                    return name
    return name


def split_name(name):
    """'<T as Trait<X>>::m' -> (T, 'Trait<X>', m);  'a::b::T::m' -> ('a::b::T', None, m)"""
    name = strip_turbofish(name)
    if name.startswith('<'):
        depth = 0
        for i, ch in enumerate(name):
            if ch == '<':
                depth += 1
            elif ch == '>' and name[i - 1] != '-':
                depth -= 1
                if depth == 0:
                    inner = name[1:i]
                    rest = name[i + 1:]
                    break
        else:
            return None
        m = rest[2:] if rest.startswith('::') else rest
        k = find_as(inner)
        if k < 0:
            return (inner, None, m)
        return (inner[:k], inner[k + 4:], m)
    k = name.rfind('::')
    if k < 0:
        return (None, None, name)
    return (name[:k], None, name[k + 2:])


def find_as(s):
    depth = 0
    for i in range(len(s)):
        ch = s[i]
        if ch == '<':
            depth += 1
        elif ch == '>' and s[i - 1] != '-':
            depth -= 1
        elif depth == 0 and s.startswith(' as ', i):
            return i
    return -1


class Inventory:
    def __init__(self, prog):
        self.p = prog
        self.by_type = {}      # ty id (str) -> {(trait, method): root}
        self.local = {}        # local root fn simple name -> root
        for r in prog.roots:
            if r.get('pat') == 'local':
                self.local[r['name'].split('::')[-1]] = r
                continue
            sp = split_name(r['name'])
            if not sp or sp[0] is None:
                continue
            t0 = sp[0]
            if t0.endswith('>') and '<impl ' in t0:
                # 'module::<impl path::Type>' (inherent impl in another module)
                t0 = t0[t0.rindex('<impl ') + 6:-1]
            tname = t0.split('::')[-1]
            tname = re.sub(r'<.*$', '', tname)
            sig = r.get('sig')
            if not sig:
                continue
            cands = []
            for t in list(sig['args']) + [sig['ret']]:
                self._adts(t, cands, 0)
            hit = None
            for t in cands:
                a = prog.adt(t)
                if a['name'].split('::')[-1] == tname:
                    hit = t
                    break
            if hit is None:
                continue
            r['self_ty'] = hit
            self.by_type.setdefault(str(hit), {})[(sp[1], sp[2])] = r

    def _adts(self, t, out, depth):
        if depth > 4:
            return
        p = self.p
        r = p.tk(t)
        if not isinstance(r, dict):
            return
        if 'Ref' in r:
            self._adts(r['Ref'][1], out, depth + 1)
        elif 'RawPtr' in r:
            self._adts(r['RawPtr'][0], out, depth + 1)
        elif 'Adt' in r:
            if t not in out:
                out.append(t)
            for a in r['Adt'][1]:
                if isinstance(a, dict) and 'Type' in a:
                    self._adts(a['Type'], out, depth + 1)
        elif 'Tuple' in r:
            for x in r['Tuple']:
                self._adts(x, out, depth + 1)
        elif 'Array' in r:
            self._adts(r['Array'][0], out, depth + 1)

    def type_of_local_arg(self, fname, i=0):
        r = self.local.get(fname)
        if not r:
            return None
        return r['sig']['args'][i]
