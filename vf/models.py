"""API-level models of the std surface behind mirdump's stop list (DESIGN.md 2.4). Every model is part of the
trusted base of the checks that reach it; models used are recorded in Exec.fns_reached."""
import re
import z3
from .mirsym import (Agg, EnumV, SymEnum, Ref, SliceRef, VecV, StrV, IterV, Opaque, FnPtr, CoroV, Cell, UNIT, PathEnd, StreamV, slice_len,
                     Unsupported, BV, concrete, simp, bool_to_bv, merge_vals)

STOP = [
    '<std::slice::Iter<*> as std::iter::Iterator>::next*',
    '<std::slice::Iter<*> as std::iter::Iterator>::size_hint*',
    '<std::slice::Iter<*> as std::iter::Iterator>::fold*',
    '<std::slice::Iter<*> as std::iter::Iterator>::nth*',
    '<std::slice::Iter<*> as std::iter::Iterator>::position*',
    '<std::slice::Iter<*> as std::iter::Iterator>::all*',
    '<std::slice::Iter<*> as std::iter::Iterator>::any*',
    '<std::slice::Iter<*> as std::iter::Iterator>::for_each*',
    '<std::slice::Iter<*> as std::iter::Iterator>::count*',
    '<std::slice::Iter<*> as std::iter::Iterator>::last*',
    '<std::slice::Iter<*> as std::iter::Iterator>::advance_by*',
    '<std::slice::Iter<*> as std::iter::Iterator>::find*',
    '<std::slice::Iter<*> as std::iter::Iterator>::find_map*',
    '<std::slice::Iter<*> as std::iter::Iterator>::try_fold*',
    '<std::slice::Iter<*> as std::iter::Iterator>::rposition*',
    '<std::slice::Iter<*> as std::iter::Iterator>::is_sorted_by*',
    '<std::slice::Iter<*> as std::iter::Iterator>::__iterator_get_unchecked*',
    '<std::slice::Iter<*> as std::iter::DoubleEndedIterator>::next_back*',
    '<std::slice::Iter<*> as std::iter::DoubleEndedIterator>::nth_back*',
    '<std::slice::Iter<*> as std::iter::DoubleEndedIterator>::advance_back_by*',
    '<std::slice::Iter<*> as std::iter::DoubleEndedIterator>::rfold*',
    '<std::slice::Iter<*> as std::iter::DoubleEndedIterator>::try_rfold*',
    '<std::slice::Iter<*> as std::iter::ExactSizeIterator>::len*',
    '<std::slice::Iter<*> as std::iter::ExactSizeIterator>::is_empty*',
    '<std::slice::IterMut<*> as std::iter::Iterator>::next*',
    '<std::slice::IterMut<*> as std::iter::Iterator>::size_hint*',
    '<std::slice::IterMut<*> as std::iter::Iterator>::fold*',
    '<std::slice::IterMut<*> as std::iter::Iterator>::nth*',
    '<std::slice::IterMut<*> as std::iter::Iterator>::position*',
    '<std::slice::IterMut<*> as std::iter::Iterator>::all*',
    '<std::slice::IterMut<*> as std::iter::Iterator>::any*',
    '<std::slice::IterMut<*> as std::iter::Iterator>::for_each*',
    '<std::slice::IterMut<*> as std::iter::Iterator>::count*',
    '<std::slice::IterMut<*> as std::iter::Iterator>::last*',
    '<std::slice::IterMut<*> as std::iter::Iterator>::advance_by*',
    '<std::slice::IterMut<*> as std::iter::Iterator>::find*',
    '<std::slice::IterMut<*> as std::iter::Iterator>::find_map*',
    '<std::slice::IterMut<*> as std::iter::Iterator>::try_fold*',
    '<std::slice::IterMut<*> as std::iter::Iterator>::rposition*',
    '<std::slice::IterMut<*> as std::iter::Iterator>::is_sorted_by*',
    '<std::slice::IterMut<*> as std::iter::Iterator>::__iterator_get_unchecked*',
    '<std::slice::IterMut<*> as std::iter::DoubleEndedIterator>::next_back*',
    '<std::slice::IterMut<*> as std::iter::DoubleEndedIterator>::nth_back*',
    '<std::slice::IterMut<*> as std::iter::DoubleEndedIterator>::advance_back_by*',
    '<std::slice::IterMut<*> as std::iter::DoubleEndedIterator>::rfold*',
    '<std::slice::IterMut<*> as std::iter::DoubleEndedIterator>::try_rfold*',
    '<std::slice::IterMut<*> as std::iter::ExactSizeIterator>::len*',
    '<std::slice::IterMut<*> as std::iter::ExactSizeIterator>::is_empty*',
    '<std::slice::Iter<*> as std::clone::Clone>::clone',
    '<std::slice::Iter<*> as std::default::Default>::default',
    'std::vec::Vec::<',
    'alloc::raw_vec::',
    'alloc::alloc::',
    'std::alloc::',
    'std::string::String::',
    '<std::string::String as ',
    '<std::vec::Vec<',
    'std::vec::from_elem',
    'std::vec::IntoIter::<',
    '<std::vec::IntoIter<*> as std::iter::Iterator>::next*',
    '<std::vec::IntoIter<*> as std::iter::Iterator>::size_hint*',
    '<std::vec::IntoIter<*> as std::iter::Iterator>::fold*',
    '<std::vec::IntoIter<*> as std::iter::DoubleEndedIterator>::next_back*',
    '<std::vec::IntoIter<*> as std::ops::Drop>::drop',
    '<std::vec::Vec<*> as std::iter::FromIterator<*>>::from_iter*',
    '<* as std::iter::Iterator>::collect::<std::vec::Vec<*',
    'std::slice::<impl [',
    'alloc::slice::<impl [',
    'std::io::impls::<impl std::io::Read for &[u8]>::',
    'std::io::impls::<impl std::io::Write for std::vec::Vec<u8>>::',
    'std::io::impls::<impl std::io::Write for &mut [u8]>::',
    'std::io::Error::',
    '<std::io::Error as ',
    'std::io::error::',
    'std::io::default_read_to_end',
    'std::io::Read::read_to_end',
    'std::io::Write::write_all',
    'core::panicking::',
    'std::rt::',
    'std::panicking::',
    'std::fmt::',
    'alloc::fmt::',
    'core::fmt::',
    '<std::fmt::',
    'std::slice::Iter::<',
    'std::slice::IterMut::<',
    'core::slice::<impl [',
    'core::slice::index::',
    'core::slice::raw::',
    'std::slice::from_raw_parts',
    'core::str::<impl str>::',
    'std::str::from_utf8',
    'core::str::converts::',
    'core::num::<impl *>::to_le_bytes',
    'core::num::<impl *>::to_be_bytes',
    'core::num::<impl *>::from_le_bytes',
    'core::num::<impl *>::from_be_bytes',
    'core::num::<impl *>::to_ne_bytes',
    'core::num::<impl *>::from_ne_bytes',
    'core::f32::<impl f32>::',
    'std::f32::<impl f32>::',
    'core::f64::<impl f64>::',
    'std::f64::<impl f64>::',
    'std::boxed::Box::<*>::new',
    'std::boxed::Box::<*>::pin',
    '<std::boxed::Box<* as std::ops::Drop>::drop',
    'std::ptr::drop_in_place::<',
    'std::mem::drop::<',
    'std::collections::BTreeMap::<',
    '<std::collections::BTreeMap<',
    'std::collections::btree_map::',
    '<std::collections::btree_map::',
    'std::collections::btree::',
    'alloc::collections::btree::',
    'flate2::',
    '<flate2::',
    'std::hint::',
    'core::slice::iter::<impl std::iter::IntoIterator for &*',
    '<*DateTime as std::convert::TryFrom<u32>>::try_from',
    'core::array::<impl [*; *]>::map*',
    'std::array::<impl [*; *]>::map*',
    'std::mem::conjure_zst',
    'std::time::Duration::',
    '<std::time::Duration as ',
    'std::net::Ipv4Addr::',
    '<std::net::Ipv4Addr as ',
    '<u32 as std::convert::From<std::net::Ipv4Addr>>::from',
    '<[* as std::fmt::Debug>::fmt',
    '<* as std::fmt::Debug>::fmt',
    '<* as std::fmt::Display>::fmt',
    '<* as std::string::ToString>::to_string',
    '<* as std::error::Error>::*',
    '<str as std::string::ToString>::to_string',
    '<std::io::Cursor<* as std::io::Read>::*',
    'std::io::Cursor::<',
    '<str as std::cmp::PartialEq>::eq',
    '<[* as std::cmp::PartialEq>::eq',
    'core::slice::cmp::',
    '<[* as std::slice::SlicePartialEq<*>>::equal',
    'core::array::equality::',
    '<[*; *] as std::cmp::PartialEq>::eq',
    '<[* as std::ops::Index<*>>::index',
    '<[* as std::ops::IndexMut<*>>::index_mut',
    '<[* as std::clone::Clone>::clone',
    '<[* as std::borrow::ToOwned>::to_owned',
    '<* as std::slice::SliceIndex<[*]>>::*',
    'tokio::io::util::read_exact::read_exact::<',
    '<tokio::io::util::read_exact::ReadExact<',
    'tokio::io::AsyncReadExt::read_exact',
    'async_std::io::ReadExt::read_exact',
    '<* as async_std::io::ReadExt>::read_exact*',
    '<* as tokio::io::AsyncReadExt>::read_exact*',
    '<* as tokio::io::AsyncReadExt>::read_*',
    '<* as tokio::io::AsyncReadExt>::read',
    'tokio::io::util::read::*',
    '<tokio::io::util::read::*',
    '<* as async_std::io::ReadExt>::read',
    'async_std::io::read::read::*',
    '<async_std::io::read::read::*',
    'tokio::io::util::read_int::*',
    '<tokio::io::util::read_int::*',
    'async_std::io::read::read_exact::',
    '<async_std::io::read::read_exact::',
    'futures_util::',
    'tokio::io::util::write_all::',
    '<tokio::io::util::write_all::',
    'tokio::io::AsyncWriteExt::write_all',
]


def norm(name):
    """drop generic arguments: keeps `<impl ...>` and `<X as Y>` skeletons but strips turbofish / type parameters"""
    out = []
    depth = 0
    i = 0
    n = len(name)
    # simple approach: remove '::<...>' turbofish groups and '<...>' directly following an identifier char
    while i < n:
        ch = name[i]
        if ch == '<':
            prev = name[i - 1] if i > 0 else ''
            keep = False
            if i == 0 or prev in ' (&[,' or name.startswith('<impl ', i) or (prev == ':' and name.startswith('<impl ', i)):
                keep = True
            if prev == '<':
                keep = True
            if keep:
                out.append(ch)
                i += 1
                continue
            # skip balanced group
            d = 0
            j = i
            while j < n:
                if name[j] == '<':
                    d += 1
                elif name[j] == '>' and name[j - 1] != '-':
                    d -= 1
                    if d == 0:
                        break
                j += 1
            # remove preceding '::' of a turbofish
            if len(out) >= 2 and out[-1] == ':' and out[-2] == ':':
                out.pop()
                out.pop()
            i = j + 1
            continue
        out.append(ch)
        i += 1
    r = ''.join(out)
    r = re.sub(r'\[[^\[\]]*\]', '[]', r)
    r = re.sub(r'\[[^\[\]]*\]', '[]', r)
    return r


_norm_cache = {}


def nname(name):
    r = _norm_cache.get(name)
    if r is None:
        r = norm(name)
        _norm_cache[name] = r
    return r


def B64(n):
    return BV(n, 64)


def deref(ex, v, cls, depth=8):
    k = 0
    while not isinstance(v, cls) and k < depth:
        if isinstance(v, Ref):
            v = ex.read(v.cell, v.path)
        elif isinstance(v, Agg) and len(v.f) >= 1 and isinstance(v.f[0], (Ref, SliceRef)):
            v = v.f[0]
        else:
            break
        k += 1
    if not isinstance(v, cls):
        raise Unsupported('expected %s got %r' % (getattr(cls, '__name__', cls), v))
    return v


def as_slice(ex, v):
    """any of &[T], &Vec<T>, &String, &[T;N], &str -> SliceRef"""
    k = 0
    while k < 8:
        if isinstance(v, SliceRef):
            return v
        if isinstance(v, VecV):
            return SliceRef(v.lst, 0, len(v.lst), v.tail)
        if isinstance(v, StrV):
            return SliceRef(v.vec.lst, 0, len(v.vec.lst))
        if isinstance(v, Agg) and not (len(v.f) >= 1 and isinstance(v.f[0], (Ref, SliceRef)) and False):
            return SliceRef(v.f, 0, len(v.f))
        if isinstance(v, Ref):
            v = ex.read(v.cell, v.path)
        else:
            break
        k += 1
    raise Unsupported('expected slice-like got %r' % (v,))


def ok(v):
    return EnumV(0, [v])


def err(v):
    return EnumV(1, [v])


def some(v):
    return EnumV(1, [v])


NONE = EnumV(0, [])


def io_error(kind):
    return Opaque('io::Error', kind=kind)


def elem_ref(lst, i):
    return Ref(Cell(VecV(lst)), [('ix', i)])


# ---------------------------------------------------------------------------------------- UTF-8
def utf8_valid(bs):
    """exact UTF-8 validity predicate over a list of byte terms (concrete length)"""
    n = len(bs)
    memo = {n: z3.BoolVal(True)}

    def rng(b, lo, hi):
        return z3.And(z3.UGE(b, lo), z3.ULE(b, hi))

    def cont(b):
        return rng(b, 0x80, 0xBF)

    def V(i):
        if i in memo:
            return memo[i]
        b = bs[i]
        alts = [z3.And(z3.ULT(b, 0x80), V(i + 1))]
        if i + 1 < n:
            alts.append(z3.And(rng(b, 0xC2, 0xDF), cont(bs[i + 1]), V(i + 2)))
        if i + 2 < n:
            b1, b2 = bs[i + 1], bs[i + 2]
            alts.append(z3.And(z3.Or(z3.And(b == 0xE0, rng(b1, 0xA0, 0xBF)), z3.And(rng(b, 0xE1, 0xEC), cont(b1)),
                                     z3.And(b == 0xED, rng(b1, 0x80, 0x9F)), z3.And(rng(b, 0xEE, 0xEF), cont(b1))), cont(b2), V(i + 3)))
        if i + 3 < n:
            b1, b2, b3 = bs[i + 1], bs[i + 2], bs[i + 3]
            alts.append(z3.And(z3.Or(z3.And(b == 0xF0, rng(b1, 0x90, 0xBF)), z3.And(rng(b, 0xF1, 0xF3), cont(b1)),
                                     z3.And(b == 0xF4, rng(b1, 0x80, 0x8F))), cont(b2), cont(b3), V(i + 4)))
        memo[i] = z3.Or(*alts) if len(alts) > 1 else alts[0]
        return memo[i]
    for i in range(n - 1, -1, -1):
        V(i)
    return simp(V(0)) if n else z3.BoolVal(True)


# ---------------------------------------------------------------------------------------- floats
def _fp_sort(w):
    return z3.Float32() if w == 32 else z3.Float64()


def to_fp(x):
    return z3.fpBVToFP(x, _fp_sort(x.size()))


def from_fp(f):
    return z3.fpToIEEEBV(f)


# Second float semantics ("err"): a float is a fresh 32-bit name whose real value is the exact result of the operation
# plus an explicit rounding-error term eta, |eta| <= 2^-24 |exact| + 2^-149 (round-to-nearest, no overflow: the
# caller bounds the inputs so that no intermediate leaves the normal range). Every behaviour of the f32 code is one
# choice of the etas, so unsat in this model implies unsat for the bit-exact semantics; sat is only a candidate.
FLOAT = {'mode': 'fp'}
REALS = {}        # name of a 32-bit z3 constant -> z3 real term
ETA_CONS = []     # definitional bounds of the etas (always satisfiable; add them to every query)
_FLC = [0]
U24 = z3.RealVal(1) / z3.RealVal(1 << 24)
TINY = z3.RealVal(1) / z3.RealVal(1 << 149)


def float_reset(mode, form='abs'):
    FLOAT['mode'] = mode
    FLOAT['form'] = form
    REALS.clear()
    del ETA_CONS[:]


def f32_fraction(bits):
    from fractions import Fraction
    sgn = -1 if bits >> 31 else 1
    e = (bits >> 23) & 0xFF
    m = bits & 0x7FFFFF
    if e == 255:
        raise Unsupported('NaN/inf constant in the rounding-error model')
    if e == 0:
        return sgn * Fraction(m, 1 << 149)
    return sgn * Fraction((1 << 23) | m, 1 << 23) * (Fraction(2) ** (e - 127))


def real_input(name):
    """register a symbolic f32 input: returns (32-bit name for the MIR, real variable)"""
    v = z3.BitVec(name, 32)
    r = z3.Real(name + '_r')
    REALS[name] = r
    return v, r


def realof(x):
    if z3.is_bv_value(x):
        fr = f32_fraction(x.as_long())
        return z3.RealVal(fr)
    if z3.is_const(x) and x.decl().name() in REALS:
        return REALS[x.decl().name()]
    if z3.is_app_of(x, z3.Z3_OP_ITE):
        return z3.If(x.arg(0), realof(x.arg(1)), realof(x.arg(2)))
    y = z3.simplify(x)
    if not y.eq(x):
        return realof(y)
    raise Unsupported('float term outside the rounding-error model: %s' % str(x)[:80])


def mkfloat(ex, exact, rounded=True, tiny=False):
    """the f32 value of an operation whose exact real result is `exact`. Names are derived from the term itself: the
    same operation on the same operands is the same float (and the same eta) on every path and in every summary."""
    import hashlib
    h = hashlib.md5((exact.sexpr() + ('|r' if rounded else '|e')).encode()).hexdigest()[:16]
    name = 'fl!' + h
    if name not in REALS:
        if rounded and FLOAT.get('form') == 'rel':
            # multiplicative form (keeps polynomials factorised, no case split on signs): exact (1 + d) [+ t]
            dl = z3.Real('eta!' + h)
            ETA_CONS.append(z3.And(dl <= U24, dl >= -U24))
            REALS[name] = exact * (1 + dl)
            if tiny:
                tt = z3.Real('tiny!' + h)
                ETA_CONS.append(z3.And(tt <= TINY, tt >= -TINY))
                REALS[name] = REALS[name] + tt
        elif rounded:
            eta = z3.Real('eta!' + h)
            ab = z3.If(exact >= 0, exact, -exact)
            bound = U24 * ab + TINY if tiny else U24 * ab
            ETA_CONS.append(z3.And(eta <= bound, eta >= -bound))
            REALS[name] = exact + eta
        else:
            REALS[name] = exact
    return z3.BitVec(name, 32)


def float_err_unop(ex, op, x):
    if z3.is_bv_value(z3.simplify(x)):
        return None
    r = realof(x)
    if op == 'abs':
        return mkfloat(ex, z3.If(r >= 0, r, -r), rounded=False)
    if op == 'neg':
        return mkfloat(ex, -r, rounded=False)
    if op == 'sqrt':
        import hashlib
        q = z3.Real('sqrt!' + hashlib.md5(r.sexpr().encode()).hexdigest()[:16])
        if not any(c.eq(z3.And(q >= 0, q * q == r)) for c in ETA_CONS):
            ETA_CONS.append(z3.And(q >= 0, q * q == r))
        return mkfloat(ex, q)
    raise Unsupported('float op %s in the rounding-error model' % op)


def float_binop(ex, op, x, y):
    if FLOAT['mode'] == 'err' and x.size() == 32:
        xs, ys = z3.simplify(x), z3.simplify(y)
        if z3.is_bv_value(xs) and z3.is_bv_value(ys):
            r = _float_binop_fp(ex, op, xs, ys)
            return z3.simplify(r)
        a, b = realof(xs), realof(ys)
        if op == 'Add':
            return mkfloat(ex, a + b)
        if op == 'Sub':
            return mkfloat(ex, a - b)
        if op == 'Mul':
            return mkfloat(ex, a * b, tiny=True)
        if op == 'Div':
            if z3.is_bv_value(ys) and f32_fraction(ys.as_long()) != 0:
                return mkfloat(ex, a / b, tiny=True)
            raise Unsupported('division by a symbolic float in the rounding-error model')
        return {'Eq': a == b, 'Ne': a != b, 'Lt': a < b, 'Le': a <= b, 'Gt': a > b, 'Ge': a >= b}[op]
    return _float_binop_fp(ex, op, x, y)


def _float_binop_fp(ex, op, x, y):
    a, b = to_fp(x), to_fp(y)
    rm = z3.RNE()
    if op == 'Add':
        return from_fp(z3.fpAdd(rm, a, b))
    if op == 'Sub':
        return from_fp(z3.fpSub(rm, a, b))
    if op == 'Mul':
        return from_fp(z3.fpMul(rm, a, b))
    if op == 'Div':
        return from_fp(z3.fpDiv(rm, a, b))
    if op == 'Eq':
        return z3.fpEQ(a, b)
    if op == 'Ne':
        return z3.Not(z3.fpEQ(a, b))
    if op == 'Lt':
        return z3.fpLT(a, b)
    if op == 'Le':
        return z3.fpLEQ(a, b)
    if op == 'Gt':
        return z3.fpGT(a, b)
    if op == 'Ge':
        return z3.fpGEQ(a, b)
    raise Unsupported('float binop %s' % op)


def float_cast(ex, ck, v, sty, dty):
    si = ex.p.int_info(sty)
    di = ex.p.int_info(dty)
    rm = z3.RNE()
    if ck == 'IntToFloat':
        s = _fp_sort(di[0])
        if si[0] == 'bool':
            v = bool_to_bv(v, 8)
        return from_fp(z3.fpSignedToFP(rm, v, s) if si[1] else z3.fpUnsignedToFP(rm, v, s))
    if ck == 'FloatToFloat':
        return from_fp(z3.fpFPToFP(rm, to_fp(v), _fp_sort(di[0])))
    if ck == 'FloatToInt':
        # Rust `as`: saturating, NaN -> 0
        f = to_fp(v)
        w = di[0]
        signed = di[1]
        rtz = z3.RTZ()
        if signed:
            lo, hi = -(1 << (w - 1)), (1 << (w - 1)) - 1
            conv = z3.fpToSBV(rtz, f, z3.BitVecSort(w))
        else:
            lo, hi = 0, (1 << w) - 1
            conv = z3.fpToUBV(rtz, f, z3.BitVecSort(w))
        s = f.sort()
        flo = z3.fpSignedToFP(rtz, BV(lo, w + 1), s) if signed else z3.fpUnsignedToFP(rtz, BV(0, w + 1), s)
        fhi = z3.fpSignedToFP(rtz, z3.BitVecVal(hi, w + 2), s)
        return z3.If(z3.fpIsNaN(f), BV(0, w), z3.If(z3.fpLEQ(f, flo), BV(lo, w), z3.If(z3.fpGEQ(f, fhi), BV(hi, w), conv)))
    raise Unsupported('float cast %s' % ck)


def transmute(ex, v, sty, dty):
    p = ex.p
    si, di = p.int_info(sty), p.int_info(dty)
    if si and di and si[0] != 'bool' and di[0] != 'bool':
        return v
    sr, dr = p.tk(sty), p.tk(dty)
    if si and isinstance(dr, dict) and 'Array' in dr and p.ty(dr['Array'][0])['size'] == 1:
        return Agg([z3.Extract(8 * i + 7, 8 * i, v) for i in range(v.size() // 8)])
    if di and isinstance(sr, dict) and 'Array' in sr and isinstance(v, Agg):
        bs = v.f
        return z3.Concat(*reversed(bs)) if len(bs) > 1 else bs[0]
    if isinstance(v, (Ref, SliceRef, Opaque, FnPtr)):
        return v
    if di and di[0] != 'bool' and isinstance(v, (EnumV, SymEnum)) and p.is_enum(sty):
        return ex.enum_discr_value(sty, v, di[0])
    raise Unsupported('transmute %s -> %s' % (p.ty_str(sty), p.ty_str(dty)))


# ---------------------------------------------------------------------------------------- dispatch
def virtual_call(ex, info, callee, args):
    a0 = args[0]
    tgt = a0
    k = 0
    while not isinstance(tgt, CoroV) and k < 6:
        if isinstance(tgt, Ref):
            tgt = ex.read(tgt.cell, tgt.path)
        elif isinstance(tgt, Agg) and tgt.f:
            tgt = tgt.f[0]
        else:
            break
        k += 1
    if isinstance(tgt, CoroV):
        key = ex.p.vimpl.get((info['trait_fn'], tgt.ty))
        if key is None:
            raise Unsupported('no vimpl for %s' % info['trait_fn'])
        return ex.call(key, args)
    raise Unsupported('virtual call %s on %r' % (info['trait_fn'], a0))


def panic_name(n):
    return (n.startswith('core::panicking::') or n.startswith('std::rt::') or n.startswith('std::panicking::')
            or 'unwrap_failed' in n or 'expect_failed' in n or n.startswith('core::option::expect_failed')
            or n.startswith('std::process::abort') or n.startswith('core::slice::index::slice_') or n.startswith('core::str::slice_error'))


MODELS = {}


def model(*names):
    def deco(f):
        for n in names:
            MODELS[norm(n)] = f
        return f
    return deco


def call_model(ex, fn, args, dest_ty):
    name = fn['name']
    n = nname(name)
    if fn.get('kind') == 'intrinsic' or name.startswith('std::intrinsics::') or name.startswith('core::intrinsics::'):
        return intrinsic(ex, fn, n, args, dest_ty)
    f = MODELS.get(n)
    if f is not None:
        return f(ex, fn, args)
    if panic_name(name):
        raise PathEnd('panic', name)
    for pref, f in PREFIX_MODELS:
        if n.startswith(pref):
            return f(ex, fn, args)
    if name.endswith('DateTime as std::convert::TryFrom<u32>>::try_from'):
        return _datetime_try_from(ex, fn, args)
    if ' as std::iter::Iterator>::collect::<std::vec::Vec<' in name:
        return _collect_vec(ex, fn, args)
    if ' as async_std::io::ReadExt>::read_exact' in name:
        return _astd_read_exact(ex, fn, args)
    if ' as tokio::io::AsyncReadExt>::read_exact' in name:
        return _tokio_read_exact(ex, fn, args)
    if re.search(r' as tokio::io::AsyncReadExt>::read(::<.*>)?$', name):
        return RExV(args[0], as_slice(ex, args[1]), 'tokio-read')
    if re.search(r' as async_std::io::ReadExt>::read(::<.*>)?$', name):
        return RExV(args[0], as_slice(ex, args[1]), 'astd-read')
    if (name.startswith('<tokio::io::util::read::Read') or name.startswith('<async_std::io::read::read::ReadFuture')) and name.endswith('as std::future::Future>::poll'):
        return _rex_poll(ex, fn, args)
    if (name.startswith('<tokio::io::util::read::Read') or name.startswith('<async_std::io::read::read::ReadFuture')) and name.endswith('as std::future::IntoFuture>::into_future'):
        return args[0]
    mm = re.search(r' as tokio::io::AsyncReadExt>::read_([uif])(\d+)(_le)?$', name)
    if mm:
        nb = int(mm.group(2)) // 8
        rx = RExV(args[0], SliceRef([BV(0, 8) for _ in range(nb)], 0, nb), 'tokio-int')
        rx.little = bool(mm.group(3)) or nb == 1
        return rx
    if name.startswith('<tokio::io::util::read_int::Read') and name.endswith('as std::future::Future>::poll'):
        return _rex_poll(ex, fn, args)
    if name.startswith('<tokio::io::util::read_int::Read') and name.endswith('as std::future::IntoFuture>::into_future'):
        return args[0]
    raise Unsupported('no model for %s  [%s]' % (name, n))


def intrinsic(ex, fn, n, args, dest_ty):
    iname = fn.get('intrinsic') or n.split('::')[-1]
    x = args[0] if args else None
    if iname == 'bitreverse':
        w = x.size()
        return z3.Concat(*[z3.Extract(i, i, x) for i in range(w)])
    if iname == 'bswap':
        w = x.size()
        return z3.Concat(*[z3.Extract(8 * i + 7, 8 * i, x) for i in range(w // 8)]) if w > 8 else x
    if iname == 'ctpop':
        w = x.size()
        r = BV(0, 32)
        for i in range(w):
            r = r + z3.ZeroExt(31, z3.Extract(i, i, x))
        return r
    if iname in ('cttz', 'cttz_nonzero'):
        w = x.size()
        r = BV(w, 32)
        for i in range(w - 1, -1, -1):
            r = z3.If(z3.Extract(i, i, x) == 1, BV(i, 32), r)
        return r
    if iname in ('ctlz', 'ctlz_nonzero'):
        w = x.size()
        r = BV(w, 32)
        for i in range(w):
            r = z3.If(z3.Extract(i, i, x) == 1, BV(w - 1 - i, 32), r)
        return r
    if iname in ('assert_inhabited', 'assert_zero_valid', 'assert_mem_uninitialized_valid', 'assume', 'forget'):
        return UNIT
    if iname in ('likely', 'unlikely', 'black_box', 'cold_path'):
        return x if x is not None else UNIT
    if iname == 'saturating_sub':
        y = args[1]
        return z3.If(z3.ULT(x, y), BV(0, x.size()), x - y)   # unsigned only
    if iname == 'saturating_add':
        y = args[1]
        return z3.If(z3.ULT(x + y, x), BV((1 << x.size()) - 1, x.size()), x + y)
    if iname in ('wrapping_add', 'unchecked_add'):
        return x + args[1]
    if iname in ('wrapping_sub', 'unchecked_sub'):
        return x - args[1]
    if iname in ('wrapping_mul', 'unchecked_mul'):
        return x * args[1]
    if iname == 'rotate_left':
        return z3.RotateLeft(x, z3.ZeroExt(x.size() - args[1].size(), args[1]) if args[1].size() < x.size() else z3.Extract(x.size() - 1, 0, args[1]))
    if iname == 'rotate_right':
        return z3.RotateRight(x, z3.ZeroExt(x.size() - args[1].size(), args[1]) if args[1].size() < x.size() else z3.Extract(x.size() - 1, 0, args[1]))
    if FLOAT['mode'] == 'err' and iname in ('sqrtf32', 'fabsf32'):
        r = float_err_unop(ex, 'sqrt' if iname == 'sqrtf32' else 'abs', x)
        if r is not None:
            return r
    if iname in ('sqrtf32', 'sqrtf64'):
        return from_fp(z3.fpSqrt(z3.RNE(), to_fp(x)))
    if iname in ('fabsf32', 'fabsf64'):
        return x & BV((1 << (x.size() - 1)) - 1, x.size())
    if iname in ('sinf32', 'cosf32'):
        return ex.path.env['libm'](iname, x)
    if iname == 'three_way_compare':
        raise Unsupported('three_way_compare')
    if iname in ('size_of', 'min_align_of', 'align_of'):
        raise Unsupported('intrinsic %s' % iname)
    if iname == 'discriminant_value':
        v = ex.read_ref(x)
        raise Unsupported('discriminant_value')
    if iname == 'abort':
        raise PathEnd('panic', 'abort')
    if iname == 'unreachable':
        raise PathEnd('unreachable', 'intrinsic')
    raise Unsupported('intrinsic %s' % iname)


# ---------------------------------------------------------------------------------------- Vec / String / slices
def alloc_request(ex, count, elem_size, what):
    """monitor: allocation request of count*elem_size bytes; count may be symbolic"""
    c = concrete(count)
    if c is not None:
        if c * elem_size > ex.alloc_budget:
            ex.path.events.append(('alloc', what, c * elem_size))
            raise PathEnd('alloc', '%s requests %d bytes' % (what, c * elem_size))
        return
    big = z3.UGT(z3.ZeroExt(64, count) * BV(max(elem_size, 1), count.size() + 64), BV(ex.alloc_budget, count.size() + 64))
    if ex.feasible(big):
        ex.path.events.append(('alloc', what, 'symbolic'))
        # fork: the over-budget request is a path of its own
        if ex.branch(big):
            # is the count bounded by the implementation's wire-size guard (<= 0x7FFFFF elements) or not at all?
            huge = z3.UGT(count, BV(0x7FFFFF, count.size())) if count.size() > 23 else z3.BoolVal(False)
            unguarded = (not z3.is_false(huge)) and ex.check(ex.path.pc + [huge]) == z3.sat
            raise PathEnd('alloc', '%s requests more than %d bytes (count symbolic, %s)' % (what, ex.alloc_budget, 'no effective guard' if unguarded else 'count within the wire-size guard'))


def elem_size_of_vec(ex, fn, which='ret'):
    try:
        sig = fn.get('sig') or {}
        ty = sig.get(which) if which == 'ret' else sig['args'][which]
        r = ex.p.tk(ty)
        while isinstance(r, dict) and 'Ref' in r:
            ty = r['Ref'][1]
            r = ex.p.tk(ty)
        if isinstance(r, dict) and 'Adt' in r:
            t = [a['Type'] for a in r['Adt'][1] if 'Type' in a][0]
            return ex.p.ty(t)['size'] or 0
    except Exception:
        pass
    return 1


@model('std::vec::Vec::new', '<std::vec::Vec as std::default::Default>::default')
def _vec_new(ex, fn, args):
    return VecV([])


@model('std::vec::Vec::with_capacity')
def _vec_with_capacity(ex, fn, args):
    alloc_request(ex, args[0], elem_size_of_vec(ex, fn), 'Vec::with_capacity')
    return VecV([])


@model('std::vec::Vec::push')
def _vec_push(ex, fn, args):
    deref(ex, args[0], VecV).lst.append(args[1])
    return UNIT


@model('std::vec::Vec::pop')
def _vec_pop(ex, fn, args):
    v = deref(ex, args[0], VecV)
    if not v.lst:
        return NONE
    return some(v.lst.pop())


@model('std::vec::Vec::len')
def _vec_len(ex, fn, args):
    v = deref(ex, args[0], VecV)
    return B64(len(v.lst)) if v.tail is None else B64(len(v.lst)) + v.tail


@model('std::vec::Vec::is_empty')
def _vec_is_empty(ex, fn, args):
    return z3.BoolVal(len(deref(ex, args[0], VecV).lst) == 0)


@model('std::vec::Vec::capacity')
def _vec_capacity(ex, fn, args):
    return B64(len(deref(ex, args[0], VecV).lst))


@model('std::vec::Vec::clear')
def _vec_clear(ex, fn, args):
    del deref(ex, args[0], VecV).lst[:]
    return UNIT


@model('std::vec::Vec::reserve', 'std::vec::Vec::reserve_exact', 'std::vec::Vec::shrink_to_fit')
def _vec_reserve(ex, fn, args):
    if len(args) > 1:
        alloc_request(ex, args[1], elem_size_of_vec(ex, fn, 0), 'Vec::reserve')
    return UNIT


@model('std::vec::Vec::truncate')
def _vec_truncate(ex, fn, args):
    v = deref(ex, args[0], VecV)
    n = concrete(args[1])
    if n is None:
        raise Unsupported('Vec::truncate symbolic')
    del v.lst[n:]
    return UNIT


@model('std::vec::Vec::as_slice', 'std::vec::Vec::as_mut_slice', '<std::vec::Vec as std::ops::Deref>::deref', '<std::vec::Vec as std::ops::DerefMut>::deref_mut',
       '<std::vec::Vec as std::convert::AsRef<[]>>::as_ref', '<std::vec::Vec as std::borrow::Borrow<[]>>::borrow', 'std::string::String::as_bytes',
       'std::string::String::as_str', '<std::string::String as std::ops::Deref>::deref', 'core::str::<impl str>::as_bytes',
       '<std::string::String as std::convert::AsRef<str>>::as_ref', '<std::string::String as std::convert::AsRef<[]>>::as_ref',
       '<std::vec::Vec as std::convert::AsRef<[]>>::as_ref')
def _as_slice(ex, fn, args):
    return as_slice(ex, args[0])


@model('std::vec::Vec::extend_from_slice')
def _vec_extend_from_slice(ex, fn, args):
    v = deref(ex, args[0], VecV)
    s = as_slice(ex, args[1])
    v.lst.extend(ex.clone(x) for x in s.items())
    return UNIT


@model('std::vec::from_elem')
def _from_elem(ex, fn, args):
    n = concrete(args[1])
    esz = 1
    try:
        esz = ex.p.ty(fn['sig']['args'][0])['size'] or 0
    except Exception:
        pass
    alloc_request(ex, args[1], esz, 'vec![x; n]')
    if n is None and not ex.sym_len_ok and ex.path is not None and ex.path.model is not None:
        # concolic concretisation: follow the guiding model's value for the count (other values are found by the coverage loop)
        val = ex.path.model.eval(args[1], model_completion=True)
        ex.path.pc.append(args[1] == val)
        n = val.as_long()
        if n * max(esz, 1) > ex.alloc_budget:
            raise PathEnd('alloc', 'vec![x; n] requests %d bytes' % (n * max(esz, 1)))
    if n is None:
        if ex.sym_len_ok:
            nn = args[1] if args[1].size() == 64 else z3.ZeroExt(64 - args[1].size(), args[1])
            return VecV([], tail=nn)
        raise Unsupported('vec![x; n] with symbolic n within budget')
    return VecV([ex.clone(args[0]) for _ in range(n)])


@model('std::slice::<impl []>::to_vec', 'alloc::slice::<impl []>::to_vec', '<[] as std::borrow::ToOwned>::to_owned', '<std::vec::Vec as std::clone::Clone>::clone',
       '<std::vec::Vec as std::convert::From<&[]>>::from', '<std::vec::Vec as std::convert::From<&mut []>>::from', 'std::slice::<impl []>::into_vec',
       'alloc::slice::<impl []>::into_vec')
def _to_vec(ex, fn, args):
    s = as_slice(ex, args[0])
    return VecV([ex.clone(x) for x in s.items()])


@model('<std::string::String as std::clone::Clone>::clone', '<std::string::String as std::convert::From<&str>>::from', 'std::string::String::from_utf8_lossy',
       '<str as std::string::ToString>::to_string', 'core::str::<impl str>::to_string', 'std::str::<impl str>::to_owned', 'alloc::str::<impl str>::to_owned',
       '<str as std::borrow::ToOwned>::to_owned', '<std::string::String as std::convert::From<&std::string::String>>::from')
def _string_clone(ex, fn, args):
    s = as_slice(ex, args[0])
    return StrV(VecV(list(s.items())))


@model('std::string::String::new', '<std::string::String as std::default::Default>::default')
def _string_new(ex, fn, args):
    return StrV(VecV([]))


@model('std::string::String::with_capacity')
def _string_with_capacity(ex, fn, args):
    alloc_request(ex, args[0], 1, 'String::with_capacity')
    return StrV(VecV([]))


@model('std::string::String::len', 'core::str::<impl str>::len')
def _string_len(ex, fn, args):
    return B64(as_slice(ex, args[0]).len)


@model('std::string::String::is_empty', 'core::str::<impl str>::is_empty')
def _string_is_empty(ex, fn, args):
    return z3.BoolVal(as_slice(ex, args[0]).len == 0)


@model('std::string::String::into_bytes')
def _string_into_bytes(ex, fn, args):
    return deref(ex, args[0], StrV).vec


@model('std::string::String::push_str')
def _string_push_str(ex, fn, args):
    s = deref(ex, args[0], StrV)
    s.vec.lst.extend(as_slice(ex, args[1]).items())
    return UNIT


@model('std::string::String::from_utf8')
def _from_utf8(ex, fn, args):
    v = deref(ex, args[0], VecV)
    valid = utf8_valid(v.lst)
    if ex.branch(valid):
        return ok(StrV(v))
    return err(Opaque('FromUtf8Error'))


@model('std::str::from_utf8', 'core::str::converts::from_utf8')
def _str_from_utf8(ex, fn, args):
    s = as_slice(ex, args[0])
    if ex.branch(utf8_valid(s.items())):
        return ok(s)
    return err(Opaque('Utf8Error'))


@model('std::string::String::from_utf8_unchecked', 'core::str::converts::from_utf8_unchecked', 'std::str::from_utf8_unchecked')
def _from_utf8_unchecked(ex, fn, args):
    if isinstance(args[0], VecV):
        return StrV(args[0])
    return as_slice(ex, args[0])


@model('core::slice::<impl []>::len')
def _slice_len(ex, fn, args):
    return slice_len(as_slice(ex, args[0]))


@model('core::slice::<impl []>::is_empty')
def _slice_is_empty(ex, fn, args):
    return z3.BoolVal(as_slice(ex, args[0]).len == 0)


@model('core::slice::<impl []>::iter', 'core::slice::<impl []>::iter_mut', '<&std::vec::Vec as std::iter::IntoIterator>::into_iter',
       '<&mut std::vec::Vec as std::iter::IntoIterator>::into_iter')
def _slice_iter(ex, fn, args):
    s = as_slice(ex, args[0])
    return IterV(s.lst, s.start, s.start + s.len, True)


@model('<std::vec::Vec as std::iter::IntoIterator>::into_iter')
def _vec_into_iter(ex, fn, args):
    v = deref(ex, args[0], VecV)
    return IterV(v.lst, 0, len(v.lst), False)


@model('<std::slice::Iter as std::iter::Iterator>::next', '<std::slice::IterMut as std::iter::Iterator>::next', '<std::vec::IntoIter as std::iter::Iterator>::next')
def _iter_next(ex, fn, args):
    it = deref(ex, args[0], IterV)
    if it.a >= it.b:
        return NONE
    it.a += 1
    return some(elem_ref(it.lst, it.a - 1) if it.by_ref else it.lst[it.a - 1])


@model('<std::slice::Iter as std::iter::DoubleEndedIterator>::next_back', '<std::slice::IterMut as std::iter::DoubleEndedIterator>::next_back',
       '<std::vec::IntoIter as std::iter::DoubleEndedIterator>::next_back')
def _iter_next_back(ex, fn, args):
    it = deref(ex, args[0], IterV)
    if it.a >= it.b:
        return NONE
    it.b -= 1
    return some(elem_ref(it.lst, it.b) if it.by_ref else it.lst[it.b])


@model('<std::slice::Iter as std::iter::Iterator>::size_hint', '<std::slice::IterMut as std::iter::Iterator>::size_hint', '<std::vec::IntoIter as std::iter::Iterator>::size_hint')
def _iter_size_hint(ex, fn, args):
    it = deref(ex, args[0], IterV)
    n = it.b - it.a
    return Agg([B64(n), some(B64(n))])


@model('<std::slice::Iter as std::iter::ExactSizeIterator>::len', '<std::slice::IterMut as std::iter::ExactSizeIterator>::len', 'std::slice::Iter::len')
def _iter_len(ex, fn, args):
    it = deref(ex, args[0], IterV)
    return B64(it.b - it.a)


@model('std::slice::Iter::as_slice', 'std::vec::IntoIter::as_slice')
def _iter_as_slice(ex, fn, args):
    it = deref(ex, args[0], IterV)
    return SliceRef(it.lst, it.a, it.b - it.a)


@model('<std::slice::Iter as std::clone::Clone>::clone')
def _iter_clone(ex, fn, args):
    it = deref(ex, args[0], IterV)
    return IterV(it.lst, it.a, it.b, it.by_ref)


def closure_key(ex, fn, argv_index, val):
    """key of the closure/fn item passed as argument argv_index to a modelled function"""
    if isinstance(val, FnPtr):
        return val.key
    sig = fn.get('sig')
    if sig:
        ty = sig['args'][argv_index]
        r = ex.p.tk(ty)
        while isinstance(r, dict) and 'Ref' in r:
            ty = r['Ref'][1]
            r = ex.p.tk(ty)
        import json
        info = (fn.get('reified') or {}).get(json.dumps(ty))
        if info:
            return info['key']
    raise Unsupported('cannot resolve closure argument of %s' % fn['name'])


@model('<std::slice::Iter as std::iter::Iterator>::fold', '<std::slice::IterMut as std::iter::Iterator>::fold', '<std::vec::IntoIter as std::iter::Iterator>::fold')
def _iter_fold(ex, fn, args):
    it = deref(ex, args[0], IterV) if not isinstance(args[0], IterV) else args[0]
    acc = args[1]
    ck = closure_key(ex, fn, 2, args[2])
    clo = Ref(Cell(args[2]))
    while it.a < it.b:
        it.a += 1
        el = elem_ref(it.lst, it.a - 1) if it.by_ref else it.lst[it.a - 1]
        acc = ex.call(ck, [clo, Agg([acc, el])])
    return acc


@model('<std::slice::Iter as std::iter::Iterator>::for_each', '<std::slice::IterMut as std::iter::Iterator>::for_each')
def _iter_for_each(ex, fn, args):
    it = args[0] if isinstance(args[0], IterV) else deref(ex, args[0], IterV)
    ck = closure_key(ex, fn, 1, args[1])
    clo = Ref(Cell(args[1]))
    while it.a < it.b:
        it.a += 1
        ex.call(ck, [clo, Agg([elem_ref(it.lst, it.a - 1) if it.by_ref else it.lst[it.a - 1]])])
    return UNIT


@model('<std::slice::Iter as std::iter::Iterator>::all', '<std::slice::Iter as std::iter::Iterator>::any')
def _iter_all_any(ex, fn, args):
    is_all = fn['name'].endswith('::all') or '::all::<' in fn['name']
    it = deref(ex, args[0], IterV)
    ck = closure_key(ex, fn, 1, args[1])
    clo = Ref(Cell(args[1]))
    while it.a < it.b:
        it.a += 1
        r = ex.call(ck, [clo, Agg([elem_ref(it.lst, it.a - 1) if it.by_ref else it.lst[it.a - 1]])])
        t = ex.branch(r)
        if is_all and not t:
            return z3.BoolVal(False)
        if not is_all and t:
            return z3.BoolVal(True)
    return z3.BoolVal(is_all)


@model('<std::slice::Iter as std::iter::Iterator>::position')
def _iter_position(ex, fn, args):
    it = deref(ex, args[0], IterV)
    ck = closure_key(ex, fn, 1, args[1])
    clo = Ref(Cell(args[1]))
    i = 0
    while it.a < it.b:
        it.a += 1
        r = ex.call(ck, [clo, Agg([elem_ref(it.lst, it.a - 1) if it.by_ref else it.lst[it.a - 1]])])
        if ex.branch(r):
            return some(B64(i))
        i += 1
    return NONE


@model('core::slice::<impl []>::copy_from_slice', 'core::slice::<impl []>::clone_from_slice')
def _copy_from_slice(ex, fn, args):
    d = as_slice(ex, args[0])
    s = as_slice(ex, args[1])
    if d.len != s.len:
        raise PathEnd('panic', 'copy_from_slice length mismatch')
    for i in range(s.len):
        d.lst[d.start + i] = ex.clone(s.lst[s.start + i])
    return UNIT


@model('core::slice::<impl []>::fill')
def _slice_fill(ex, fn, args):
    d = as_slice(ex, args[0])
    for i in range(d.len):
        d.lst[d.start + i] = ex.clone(args[1])
    return UNIT


@model('core::slice::<impl []>::get', 'core::slice::<impl []>::get_mut')
def _slice_get(ex, fn, args):
    s = as_slice(ex, args[0])
    i = args[1]
    if isinstance(i, Agg):
        raise Unsupported('slice::get with range')
    c = concrete(i)
    if c is None:
        raise Unsupported('slice::get symbolic index')
    if c >= s.len:
        return NONE
    return some(elem_ref(s.lst, s.start + c))


@model('core::slice::<impl []>::first', 'core::slice::<impl []>::first_mut')
def _slice_first(ex, fn, args):
    s = as_slice(ex, args[0])
    return some(elem_ref(s.lst, s.start)) if s.len else NONE


@model('core::slice::<impl []>::last', 'core::slice::<impl []>::last_mut')
def _slice_last(ex, fn, args):
    s = as_slice(ex, args[0])
    return some(elem_ref(s.lst, s.start + s.len - 1)) if s.len else NONE


@model('core::slice::<impl []>::split_at', 'core::slice::<impl []>::split_at_mut')
def _split_at(ex, fn, args):
    s = as_slice(ex, args[0])
    c = concrete(args[1])
    if c is None:
        raise Unsupported('split_at symbolic')
    if c > s.len:
        raise PathEnd('panic', 'split_at out of bounds')
    return Agg([SliceRef(s.lst, s.start, c), SliceRef(s.lst, s.start + c, s.len - c)])


@model('core::slice::<impl []>::contains')
def _slice_contains(ex, fn, args):
    s = as_slice(ex, args[0])
    x = ex.read_ref(args[1])
    if not s.len:
        return z3.BoolVal(False)
    return simp(z3.Or(*[e == x for e in s.items()]))


def range_bounds(ex, r, ln, name):
    """r: Range / RangeFrom / RangeTo / RangeFull aggregate -> (a, b) concrete"""
    n = name
    f = r.f if isinstance(r, Agg) else []
    def c(v):
        x = concrete(v)
        if x is None:
            raise Unsupported('symbolic slice range')
        return x
    if 'RangeFrom' in n:
        return c(f[0]), ln
    if 'RangeToInclusive' in n:
        return 0, c(f[0]) + 1
    if 'RangeTo' in n:
        return 0, c(f[0])
    if 'RangeFull' in n:
        return 0, ln
    if 'RangeInclusive' in n:
        return c(f[0]), c(f[1]) + 1
    return c(f[0]), c(f[1])


def _index_model(ex, fn, args):
    s = as_slice(ex, args[0])
    idx = args[1]
    name = fn['name']
    if z3.is_expr(idx):
        c = concrete(idx)
        if c is None:
            raise Unsupported('symbolic slice index')
        if c >= s.len:
            raise PathEnd('panic', 'index out of bounds')
        return elem_ref(s.lst, s.start + c)
    a, b = range_bounds(ex, idx, s.len, name)
    if a > b or b > s.len:
        raise PathEnd('panic', 'slice range out of bounds')
    return SliceRef(s.lst, s.start + a, b - a)


def _eq_model(ex, fn, args):
    a = as_slice(ex, args[0])
    b = as_slice(ex, args[1])
    if a.len != b.len:
        return z3.BoolVal(False)
    if not a.len:
        return z3.BoolVal(True)
    xs, ys = a.items(), b.items()
    if not all(z3.is_expr(x) for x in xs + ys):
        raise Unsupported('slice equality on non-scalar elements')
    return simp(z3.And(*[x == y for x, y in zip(xs, ys)]))


MODELS[norm('<str as std::cmp::PartialEq>::eq')] = _eq_model
MODELS[norm('<[] as std::cmp::PartialEq>::eq')] = _eq_model


# ---------------------------------------------------------------------------------------- io
def reader_state(ex, r):
    """&mut &[u8] (possibly nested &mut) -> (cell, path, SliceRef)"""
    ref = r
    cur = ex.read(ref.cell, ref.path)
    while isinstance(cur, Ref):
        ref = cur
        cur = ex.read(ref.cell, ref.path)
    if not isinstance(cur, (SliceRef, StreamV)):
        raise Unsupported('reader is %r' % (cur,))
    return ref, cur


@model('std::io::impls::<impl std::io::Read for &[]>::read_exact')
def _read_exact(ex, fn, args):
    ref, cur = reader_state(ex, args[0])
    buf = as_slice(ex, args[1])
    if isinstance(cur, StreamV):
        return _stream_read_exact(ex, cur, buf)
    if buf.tail is not None:
        raise Unsupported('symbolic-length read from a concrete buffer')
    if cur.len < buf.len:
        ex.write(ref.cell, ref.path, SliceRef(cur.lst, cur.start + cur.len, 0))
        return err(io_error('UnexpectedEof'))
    for i in range(buf.len):
        buf.lst[buf.start + i] = cur.lst[cur.start + i]
    ex.write(ref.cell, ref.path, SliceRef(cur.lst, cur.start + buf.len, cur.len - buf.len))
    return ok(UNIT)


def _stream_read_exact(ex, st, buf):
    k = buf.len
    if isinstance(st.pos, int):
        for i in range(k):
            j = st.pos + i
            buf.lst[buf.start + i] = st.head[j] if j < len(st.head) else ex.fresh('stream', 8)
        st.pos += k
    else:
        for i in range(k):
            buf.lst[buf.start + i] = ex.fresh('stream', 8)
        st.pos = st.pos + B64(k)
    st.reads.append(slice_len(buf))
    if buf.tail is not None:
        st.pos = (B64(st.pos) if isinstance(st.pos, int) else st.pos) + buf.tail
    return ok(UNIT)


@model('std::io::impls::<impl std::io::Read for &[]>::read')
def _read(ex, fn, args):
    ref, cur = reader_state(ex, args[0])
    buf = as_slice(ex, args[1])
    k = min(cur.len, buf.len)
    for i in range(k):
        buf.lst[buf.start + i] = cur.lst[cur.start + i]
    ex.write(ref.cell, ref.path, SliceRef(cur.lst, cur.start + k, cur.len - k))
    return ok(B64(k))


@model('std::io::impls::<impl std::io::Read for &[]>::read_to_end')
def _read_to_end(ex, fn, args):
    ref, cur = reader_state(ex, args[0])
    v = deref(ex, args[1], VecV)
    v.lst.extend(cur.items())
    ex.write(ref.cell, ref.path, SliceRef(cur.lst, cur.start + cur.len, 0))
    return ok(B64(cur.len))


@model('std::io::impls::<impl std::io::Write for std::vec::Vec>::write_all')
def _write_all_vec(ex, fn, args):
    v = deref(ex, args[0], VecV)
    s = as_slice(ex, args[1])
    if v.tail is not None:
        if s.len == 0 and s.tail is None:
            return ok(UNIT)
        raise Unsupported('write after a symbolic-length tail')
    v.lst.extend(s.items())
    if s.tail is not None:
        v.tail = s.tail
    return ok(UNIT)


@model('std::io::impls::<impl std::io::Write for std::vec::Vec>::write')
def _write_vec(ex, fn, args):
    v = deref(ex, args[0], VecV)
    s = as_slice(ex, args[1])
    v.lst.extend(s.items())
    return ok(B64(s.len))


@model('std::io::impls::<impl std::io::Write for std::vec::Vec>::flush', 'std::io::impls::<impl std::io::Write for &mut []>::flush')
def _flush(ex, fn, args):
    return ok(UNIT)


@model('std::io::impls::<impl std::io::Write for &mut []>::write_all')
def _write_all_slice(ex, fn, args):
    ref = args[0]
    cur = ex.read(ref.cell, ref.path)
    while isinstance(cur, Ref):
        ref = cur
        cur = ex.read(ref.cell, ref.path)
    s = as_slice(ex, args[1])
    if cur.len < s.len:
        k = cur.len
        for i in range(k):
            cur.lst[cur.start + i] = s.lst[s.start + i]
        ex.write(ref.cell, ref.path, SliceRef(cur.lst, cur.start + k, 0))
        return err(io_error('WriteZero'))
    for i in range(s.len):
        cur.lst[cur.start + i] = s.lst[s.start + i]
    ex.write(ref.cell, ref.path, SliceRef(cur.lst, cur.start + s.len, cur.len - s.len))
    return ok(UNIT)


@model('std::io::Error::kind')
def _io_error_kind(ex, fn, args):
    e = deref(ex, args[0], Opaque)
    return Opaque('io::ErrorKind', kind=e.kw.get('kind'))


def _io_error_new(ex, fn, args):
    # identity conversion From<io::Error> for io::Error (the `?` operator)
    for a in args:
        if isinstance(a, Opaque) and a.what == 'io::Error':
            return a
    # io::Error::new(kind, ..) / From<ErrorKind>: keep the kind when it is concrete
    try:
        sig = fn.get('sig') or {}
        for a, t in zip(args, sig.get('args', [])):
            if isinstance(a, EnumV) and ex.p.is_enum(t) and ex.p.adt(t)['name'].endswith('ErrorKind'):
                return io_error(ex.p.adt(t)['variants'][a.d]['name'])
    except Exception:
        pass
    return io_error('Other')


# ---------------------------------------------------------------------------------------- numbers
def _to_bytes(big):
    def f(ex, fn, args):
        x = args[0]
        bs = [simp(z3.Extract(8 * i + 7, 8 * i, x)) for i in range(x.size() // 8)]
        return Agg(list(reversed(bs)) if big else bs)
    return f


def _from_bytes(big):
    def f(ex, fn, args):
        bs = list(args[0].f)
        if big:
            bs = list(reversed(bs))
        return simp(z3.Concat(*reversed(bs))) if len(bs) > 1 else bs[0]
    return f


MODELS['core::num::<impl INT>::to_le_bytes'] = _to_bytes(False)
MODELS['core::num::<impl INT>::to_ne_bytes'] = _to_bytes(False)
MODELS['core::num::<impl INT>::to_be_bytes'] = _to_bytes(True)
MODELS['core::num::<impl INT>::from_le_bytes'] = _from_bytes(False)
MODELS['core::num::<impl INT>::from_ne_bytes'] = _from_bytes(False)
MODELS['core::num::<impl INT>::from_be_bytes'] = _from_bytes(True)


def _f32_model(ex, fn, args):
    n = fn['name'].split('::')[-1]
    x = args[0]
    if n in ('to_le_bytes', 'to_ne_bytes'):
        return _to_bytes(False)(ex, fn, args)
    if n == 'to_be_bytes':
        return _to_bytes(True)(ex, fn, args)
    if n in ('from_le_bytes', 'from_ne_bytes'):
        return _from_bytes(False)(ex, fn, args)
    if n == 'from_be_bytes':
        return _from_bytes(True)(ex, fn, args)
    if n in ('to_bits', 'from_bits'):
        return x
    if FLOAT['mode'] == 'err' and n in ('abs', 'sqrt') and x.size() == 32:
        r = float_err_unop(ex, n, x)
        if r is not None:
            return r
    if n == 'abs':
        return x & BV((1 << (x.size() - 1)) - 1, x.size())
    if n == 'sqrt':
        return from_fp(z3.fpSqrt(z3.RNE(), to_fp(x)))
    if n in ('sin', 'cos'):
        return ex.path.env['libm'](n, x)
    if n == 'sin_cos':
        return Agg([ex.path.env['libm']('sin', x), ex.path.env['libm']('cos', x)])
    if n == 'is_nan':
        return z3.fpIsNaN(to_fp(x))
    if n == 'powi':
        c = concrete(args[1])
        if c == 2:
            return float_binop(ex, 'Mul', x, x)
    if n == 'total_cmp':
        raise Unsupported('f32::total_cmp')
    raise Unsupported('f32 method %s' % n)


# ---------------------------------------------------------------------------------------- Box, fmt, misc
@model('std::boxed::Box::new', 'std::boxed::Box::pin')
def _box_new(ex, fn, args):
    r = Ref(Cell(args[0]))
    if fn['name'].endswith('::pin'):
        return Agg([r])
    return r


def _unit(ex, fn, args):
    return UNIT


def _opaque_fmt(ex, fn, args):
    return Opaque('fmt')


def _fmt_format(ex, fn, args):
    return StrV(VecV([ex.fresh('fmt', 8)]))


PREFIX_MODELS = [
    ('core::num::<impl ', None),  # placeholder replaced below
    ('std::fmt::format', _fmt_format),
    ('alloc::fmt::format', _fmt_format),
    ('std::fmt::', _opaque_fmt),
    ('core::fmt::', _opaque_fmt),
    ('alloc::fmt::', _opaque_fmt),
    ('<std::fmt::', _opaque_fmt),
    ('std::ptr::drop_in_place', _unit),
    ('std::mem::drop', _unit),
    ('<std::boxed::Box as std::ops::Drop>::drop', _unit),
    ('std::io::Error::new', _io_error_new),
    ('std::io::Error::other', _io_error_new),
    ('<std::io::Error as std::convert::From', _io_error_new),
    ('core::f32::<impl f32>::', _f32_model),
    ('std::f32::<impl f32>::', _f32_model),
    ('core::f64::<impl f64>::', _f32_model),
    ('std::f64::<impl f64>::', _f32_model),
    ('<[] as std::ops::Index', _index_model),
    ('<[] as std::ops::IndexMut', _index_model),
    ('core::slice::index::<impl std::ops::Index', _index_model),
    ('core::slice::index::<impl std::ops::IndexMut', _index_model),
    ('<std::vec::Vec as std::ops::Index', _index_model),
    ('<std::vec::Vec as std::ops::IndexMut', _index_model),
    ('<[] as std::slice::SlicePartialEq', _eq_model),
    ('core::slice::cmp::<impl std::cmp::PartialEq', _eq_model),
    ('core::array::equality::<impl std::cmp::PartialEq', _eq_model),
    ('<std::vec::Vec as std::cmp::PartialEq', _eq_model),
    ('<std::string::String as std::cmp::PartialEq', _eq_model),
]


def _num_impl(ex, fn, args):
    n = nname(fn['name'])
    m = re.match(r'core::num::<impl [a-z0-9]+>::(\w+)$', n)
    if m:
        k = 'core::num::<impl INT>::' + m.group(1)
        if k in MODELS:
            return MODELS[k](ex, fn, args)
    raise Unsupported('no model for %s' % fn['name'])


PREFIX_MODELS[0] = ('core::num::<impl ', _num_impl)


# ---------------------------------------------------------------------------------------- Duration
class DurV(Agg):
    """Duration as (secs, nanos) that remembers the integer it was built from, so that as_millis(from_millis(x)) is x
    without 128-bit division in the query (the identity is exact for every u64)."""
    __slots__ = ('millis', 'secs_src')

    def __init__(self, f, millis=None, secs_src=None):
        Agg.__init__(self, f)
        self.millis = millis
        self.secs_src = secs_src


@model('std::time::Duration::from_secs')
def _dur_from_secs(ex, fn, args):
    return DurV([args[0], BV(0, 32)], secs_src=args[0])


@model('std::time::Duration::from_millis')
def _dur_from_millis(ex, fn, args):
    ms = args[0]
    return DurV([z3.UDiv(ms, BV(1000, 64)), z3.Extract(31, 0, z3.URem(ms, BV(1000, 64))) * BV(1000000, 32)], millis=ms)


@model('std::time::Duration::as_secs')
def _dur_as_secs(ex, fn, args):
    return deref(ex, args[0], Agg).f[0]


@model('std::time::Duration::as_millis')
def _dur_as_millis(ex, fn, args):
    d = deref(ex, args[0], Agg)
    if isinstance(d, DurV) and d.millis is not None:
        return z3.ZeroExt(64, d.millis)
    if isinstance(d, DurV) and d.secs_src is not None:
        return z3.ZeroExt(64, d.secs_src) * BV(1000, 128)
    return z3.ZeroExt(64, d.f[0]) * BV(1000, 128) + z3.ZeroExt(96, z3.UDiv(d.f[1], BV(1000000, 32)))


@model('std::time::Duration::subsec_millis')
def _dur_subsec_millis(ex, fn, args):
    d = deref(ex, args[0], Agg)
    return z3.UDiv(d.f[1], BV(1000000, 32))


@model('std::mem::conjure_zst')
def _conjure_zst(ex, fn, args):
    return UNIT


# ---------------------------------------------------------------------------------------- contracts of separately verified kernels
DT_VALID = z3.Function('datetime_valid', z3.BitVecSort(32), z3.BoolSort())


def _datetime_try_from(ex, fn, args):
    """contract established by C15 (Kani, all 2^32 words): Ok(DateTime{inner: v}) iff v is a real calendar instant.
    The calendar predicate is an uninterpreted symbol shared with the encoder, so C01 queries carry no calendar arithmetic."""
    v = args[0]
    if ex.branch(DT_VALID(v)):
        return ok(Agg([v]))
    return err(Opaque('DateTimeError'))


def _array_map(ex, fn, args):
    arr = args[0]
    ck = closure_key(ex, fn, 1, args[1])
    clo = Ref(Cell(args[1]))
    return Agg([ex.call(ck, [clo, Agg([e])]) for e in arr.f])


PREFIX_MODELS.append(('core::array::<impl []>::map', _array_map))
PREFIX_MODELS.append(('core::slice::iter::<impl std::iter::IntoIterator for &', _slice_iter))
PREFIX_MODELS.append(('std::array::<impl []>::map', _array_map))


# ---------------------------------------------------------------------------------------- Ipv4Addr (opaque wrapper of its u32 value)
@model('<std::net::Ipv4Addr as std::convert::From<u32>>::from', 'std::net::Ipv4Addr::from_bits')
def _ip_from_u32(ex, fn, args):
    if isinstance(args[0], Agg):
        a = args[0].f
        return Agg([z3.Concat(a[0], a[1], a[2], a[3])])
    return Agg([args[0]])


@model('<std::net::Ipv4Addr as std::clone::Clone>::clone')
def _ip_clone(ex, fn, args):
    return deref(ex, args[0], Agg)


@model('<u32 as std::convert::From<std::net::Ipv4Addr>>::from', 'std::net::Ipv4Addr::to_bits')
def _ip_to_u32(ex, fn, args):
    v = args[0]
    if isinstance(v, Ref):
        v = ex.read(v.cell, v.path)
    return v.f[0]


@model('std::net::Ipv4Addr::octets')
def _ip_octets(ex, fn, args):
    v = deref(ex, args[0], Agg)
    x = v.f[0]
    return Agg([z3.Extract(31, 24, x), z3.Extract(23, 16, x), z3.Extract(15, 8, x), z3.Extract(7, 0, x)])


@model('std::net::Ipv4Addr::new')
def _ip_new(ex, fn, args):
    return Agg([z3.Concat(args[0], args[1], args[2], args[3])])




# ---------------------------------------------------------------------------------------- async read_exact futures (C06)
class RExV:
    """tokio ReadExact / async-std ReadExactFuture: reader + destination buffer + number of bytes filled so far"""

    def __init__(self, reader, buf, flavour):
        self.reader = reader
        self.buf = buf
        self.filled = 0
        self.flavour = flavour


def _tokio_read_exact(ex, fn, args):
    return RExV(args[0], as_slice(ex, args[1]), 'tokio')


def _astd_read_exact(ex, fn, args):
    return RExV(args[0], as_slice(ex, args[1]), 'astd')


def _rex_poll(ex, fn, args):
    """documented contract of read_exact futures: poll the reader until the buffer is full; a ready read of zero bytes
    is UnexpectedEof; Pending leaves the partial fill in place. The transport script (which polls return Pending, how
    many bytes each ready poll delivers) comes from the path environment."""
    rx = args[0]
    k = 0
    while not isinstance(rx, RExV) and k < 6:
        if isinstance(rx, Ref):
            rx = ex.read(rx.cell, rx.path)
        elif isinstance(rx, Agg) and rx.f:
            rx = rx.f[0]
        else:
            break
        k += 1
    if not isinstance(rx, RExV):
        raise Unsupported('poll of %r' % (rx,))
    env = ex.path.env
    data = env['data']
    if rx.flavour in ('tokio-read', 'astd-read'):
        # a single read: one ready poll delivers what the transport has (at most the buffer) and completes
        act = env['sched'].pop(0) if env['sched'] else 'ALL'
        env['polls'] = env.get('polls', 0) + 1
        if act == 'P':
            return EnumV(1, [])
        avail = len(data) - env['pos']
        n = min(rx.buf.len, avail, 10 ** 9 if act == 'ALL' else act)
        for i in range(n):
            rx.buf.lst[rx.buf.start + i] = data[env['pos'] + i]
        env['pos'] += n
        return EnumV(0, [ok(B64(n))])
    while True:
        need = rx.buf.len - rx.filled
        if need == 0:
            if rx.flavour == 'tokio-int':
                bs = rx.buf.items()
                if not rx.little:
                    bs = list(reversed(bs))
                return EnumV(0, [ok(z3.Concat(*reversed(bs)) if len(bs) > 1 else bs[0])])
            return EnumV(0, [ok(B64(rx.buf.len) if rx.flavour == 'tokio' else UNIT)])
        act = env['sched'].pop(0) if env['sched'] else 'ALL'
        env['polls'] = env.get('polls', 0) + 1
        if act == 'P':
            return EnumV(1, [])
        avail = len(data) - env['pos']
        if avail == 0:
            return EnumV(0, [err(io_error('UnexpectedEof'))])
        n = min(need, avail, 10 ** 9 if act == 'ALL' else act)
        for i in range(n):
            rx.buf.lst[rx.buf.start + rx.filled + i] = data[env['pos'] + i]
        rx.filled += n
        env['pos'] += n


PREFIX_MODELS.append(('tokio::io::util::read_exact::read_exact', _tokio_read_exact))
PREFIX_MODELS.append(('<tokio::io::util::read_exact::ReadExact as std::future::IntoFuture>::into_future', lambda ex, fn, args: args[0]))
PREFIX_MODELS.append(('<async_std::io::read::read_exact::ReadExactFuture as std::future::IntoFuture>::into_future', lambda ex, fn, args: args[0]))
PREFIX_MODELS.append(('<tokio::io::util::read_exact::ReadExact as std::future::Future>::poll', _rex_poll))
PREFIX_MODELS.append(('async_std::io::read::read_exact::', _astd_read_exact))
PREFIX_MODELS.append(('async_std::io::ReadExt::read_exact', _astd_read_exact))
PREFIX_MODELS.append(('<async_std::io::read::read_exact::ReadExactFuture as std::future::Future>::poll', _rex_poll))


# ---------------------------------------------------------------------------------------- collect() into Vec
def _collect_vec(ex, fn, args):
    """iter.collect::<Vec<_>>() / Vec::from_iter(iter) for the shapes that occur: a slice/vec iterator, optionally
    wrapped in Map { iter, f } (built by the real Iterator::map)"""
    it = args[0]
    if isinstance(it, IterV):
        out = [(elem_ref(it.lst, i) if it.by_ref else it.lst[i]) for i in range(it.a, it.b)]
        it.a = it.b
        return VecV(out)
    if isinstance(it, Agg) and len(it.f) == 2 and isinstance(it.f[0], IterV):
        inner, f = it.f
        nested = [v for v in (fn.get('reified') or {}).values()]
        if isinstance(f, FnPtr):
            key = f.key
        elif len(nested) == 1:
            key = nested[0]['key']
        else:
            raise Unsupported('collect(): cannot resolve the mapping function')
        out = []
        is_closure = 'closure' in ex.p.fn(key)['name']
        for i in range(inner.a, inner.b):
            el = elem_ref(inner.lst, i) if inner.by_ref else inner.lst[i]
            out.append(ex.call(key, [Ref(Cell(f)), Agg([el])] if is_closure else [el]))
        inner.a = inner.b
        return VecV(out)
    raise Unsupported('collect() of %r' % (it,))


PREFIX_MODELS.append(('<std::vec::Vec as std::iter::FromIterator>::from_iter', _collect_vec))


# ---------------------------------------------------------------------------------------- BTreeMap<u16, u32> (finite map, ordered iteration)
class MapV:
    """finite map with concrete keys and symbolic values"""

    def __init__(self, d=None):
        self.d = dict(d or {})

    def __repr__(self):
        return 'Map(%r)' % sorted(self.d)


def _key(ex, k):
    k = ex.read_ref(k)
    c = concrete(k)
    if c is None:
        raise Unsupported('BTreeMap with a symbolic key')
    return c, k.size()


@model('std::collections::BTreeMap::new', '<std::collections::BTreeMap as std::default::Default>::default')
def _map_new(ex, fn, args):
    return MapV()


@model('std::collections::BTreeMap::insert')
def _map_insert(ex, fn, args):
    m = deref(ex, args[0], MapV)
    k, w = _key(ex, args[1])
    old = m.d.get(k)
    m.d[k] = (args[2], w)
    return some(old[0]) if old is not None else NONE


@model('std::collections::BTreeMap::get', 'std::collections::BTreeMap::get_mut')
def _map_get(ex, fn, args):
    m = deref(ex, args[0], MapV)
    k, w = _key(ex, args[1])
    if k not in m.d:
        return NONE
    cell = Cell(m.d[k][0])
    return some(Ref(cell))


@model('std::collections::BTreeMap::contains_key')
def _map_contains(ex, fn, args):
    m = deref(ex, args[0], MapV)
    k, w = _key(ex, args[1])
    return z3.BoolVal(k in m.d)


@model('std::collections::BTreeMap::remove')
def _map_remove(ex, fn, args):
    m = deref(ex, args[0], MapV)
    k, w = _key(ex, args[1])
    if k in m.d:
        return some(m.d.pop(k)[0])
    return NONE


@model('std::collections::BTreeMap::len')
def _map_len(ex, fn, args):
    return B64(len(deref(ex, args[0], MapV).d))


@model('std::collections::BTreeMap::is_empty')
def _map_is_empty(ex, fn, args):
    return z3.BoolVal(not deref(ex, args[0], MapV).d)


@model('<std::collections::BTreeMap as std::clone::Clone>::clone')
def _map_clone(ex, fn, args):
    return MapV(deref(ex, args[0], MapV).d)


@model('std::collections::BTreeMap::clear')
def _map_clear(ex, fn, args):
    deref(ex, args[0], MapV).d.clear()
    return UNIT


@model('std::collections::BTreeMap::iter', '<&std::collections::BTreeMap as std::iter::IntoIterator>::into_iter')
def _map_iter(ex, fn, args):
    m = deref(ex, args[0], MapV)
    items = [Agg([Ref(Cell(BV(k, m.d[k][1]))), Ref(Cell(m.d[k][0]))]) for k in sorted(m.d)]
    return IterV(items, 0, len(items), False)


@model('std::collections::BTreeMap::keys')
def _map_keys(ex, fn, args):
    m = deref(ex, args[0], MapV)
    items = [Ref(Cell(BV(k, m.d[k][1]))) for k in sorted(m.d)]
    return IterV(items, 0, len(items), False)


@model('std::collections::BTreeMap::values')
def _map_values(ex, fn, args):
    m = deref(ex, args[0], MapV)
    items = [Ref(Cell(m.d[k][0])) for k in sorted(m.d)]
    return IterV(items, 0, len(items), False)


def _btree_iter_next(ex, fn, args):
    return _iter_next(ex, fn, args)


PREFIX_MODELS.append(('<std::collections::btree_map::Iter as std::iter::Iterator>::next', _btree_iter_next))
PREFIX_MODELS.append(('<std::collections::btree_map::Keys as std::iter::Iterator>::next', _btree_iter_next))
PREFIX_MODELS.append(('<std::collections::btree_map::Values as std::iter::Iterator>::next', _btree_iter_next))
PREFIX_MODELS.append(('<std::collections::btree_map::Iter as std::iter::Iterator>::size_hint', _iter_size_hint))


@model('<std::slice::Iter as std::iter::Iterator>::__iterator_get_unchecked', '<std::slice::IterMut as std::iter::Iterator>::__iterator_get_unchecked')
def _iter_get_unchecked(ex, fn, args):
    it = deref(ex, args[0], IterV)
    i = concrete(args[1])
    if i is None:
        raise Unsupported('symbolic zip index')
    return elem_ref(it.lst, it.a + i) if it.by_ref else it.lst[it.a + i]

PREFIX_MODELS.append(('<std::collections::btree_map::Iter as std::iter::IntoIterator>::into_iter', lambda ex, fn, args: args[0]))
PREFIX_MODELS.append(('<std::collections::btree_map::Keys as std::iter::IntoIterator>::into_iter', lambda ex, fn, args: args[0]))
PREFIX_MODELS.append(('<std::collections::btree_map::Values as std::iter::IntoIterator>::into_iter', lambda ex, fn, args: args[0]))
