"""Feature-configuration model of a crate's sources (C19): every module, item definition and path reference with the
cfg condition under which it is compiled, as z3 formulas over the crate's cargo features. A light-weight scanner (no
macro expansion, no type resolution): tokens with comments/strings removed, brace scopes, attributes applying to the
next item. References it cannot resolve are counted, never reported."""
import os
import re
import z3

TOK = re.compile(r'''\s+|//[^\n]*|/\*.*?\*/|(?P<str>b?r#*"|b?"(?:[^"\\]|\\.)*")|(?P<chr>b?'(?:[^'\\]|\\.)'|'[a-z_][a-z_0-9]*\b)|(?P<id>r#[A-Za-z_]\w*|[A-Za-z_]\w*)|(?P<num>\d[\w.]*)|(?P<op>::|->|=>|[{}()\[\];,#!<>=&|*+\-./:?@^%$~])''', re.S)


def tokens(src):
    out = []
    i = 0
    n = len(src)
    while i < n:
        m = TOK.match(src, i)
        if not m:
            i += 1
            continue
        g = m.lastgroup
        if g == 'str' and m.group(g).endswith('"') and 'r' in m.group(g)[:2] and not m.group(g).startswith('"') and not m.group(g).startswith('b"'):
            # raw string r#"..."#
            hashes = m.group(g).count('#')
            end = src.find('"' + '#' * hashes, m.end())
            i = (end + 1 + hashes) if end >= 0 else n
            out.append(('str', ''))
            continue
        i = m.end()
        if g == 'str':
            out.append(('str', m.group(g)))
        elif g:
            out.append((g, m.group(g)))
    return out


class Features:
    def __init__(self, crate, toml_text, extra=None):
        self.crate = crate
        self.vars = {}
        self.cons = []
        feats = {}
        sec = None
        deps_opt = set()
        cur_dep = None
        for line in toml_text.splitlines():
            s = line.strip()
            m = re.match(r'\[(.+)\]$', s)
            if m:
                sec = m.group(1)
                cur_dep = sec.split('.', 1)[1] if sec.startswith('dependencies.') else None
                continue
            if sec == 'features':
                m = re.match(r'([\w-]+)\s*=\s*\[(.*)\]', s)
                if m:
                    feats[m.group(1)] = re.findall(r'"([^"]+)"', m.group(2))
            elif sec == 'dependencies':
                m = re.match(r'([\w-]+)\s*=\s*\{(.*)\}', s)
                if m and re.search(r'optional\s*=\s*true', m.group(2)):
                    deps_opt.add(m.group(1))
            elif cur_dep and re.match(r'optional\s*=\s*true', s):
                deps_opt.add(cur_dep)
        self.features = feats
        self.optional = deps_opt
        for f in list(feats) + list(deps_opt):
            self.var(f)
        self.dep_features = {}     # other crate -> {feature: [our features enabling it]}
        for f, lst in feats.items():
            for g in lst:
                if g.startswith('dep:'):
                    self.cons.append(z3.Implies(self.var(f), self.var(g[4:])))
                elif '/' in g:
                    d, df = g.split('/', 1)
                    d = d.rstrip('?')
                    if d in deps_opt and not g.split('/')[0].endswith('?'):
                        self.cons.append(z3.Implies(self.var(f), self.var(d)))
                    self.dep_features.setdefault(d, {}).setdefault(df, []).append(f)
                else:
                    self.cons.append(z3.Implies(self.var(f), self.var(g)))

    def var(self, f):
        if f not in self.vars:
            self.vars[f] = z3.Bool('%s:%s' % (self.crate, f))
        return self.vars[f]


def cfg_expr(toks, feats):
    """tokens inside cfg( ... ) -> z3 Bool"""
    pos = [0]

    def parse():
        k, t = toks[pos[0]]
        pos[0] += 1
        if t in ('any', 'all', 'not') and pos[0] < len(toks) and toks[pos[0]][1] == '(':
            pos[0] += 1
            args = []
            while toks[pos[0]][1] != ')':
                args.append(parse())
                if toks[pos[0]][1] == ',':
                    pos[0] += 1
            pos[0] += 1
            if t == 'any':
                return z3.Or(*args) if args else z3.BoolVal(False)
            if t == 'all':
                return z3.And(*args) if args else z3.BoolVal(True)
            return z3.Not(args[0])
        if t == 'feature':
            pos[0] += 1          # '='
            name = toks[pos[0]][1].strip('"')
            pos[0] += 1
            return feats.var(name)
        if t == 'test':
            return z3.BoolVal(False)
        if t in ('debug_assertions', 'doc', 'unix', 'windows'):
            return z3.Bool('cfg:' + t)
        # target_os = "..." and the like: free
        if pos[0] < len(toks) and toks[pos[0]][1] == '=':
            pos[0] += 2
        return z3.Bool('cfg:' + t)
    return parse()


class Module:
    def __init__(self, path, cond):
        self.path = path              # tuple of names
        self.cond = cond              # condition under which the module exists (conjunction along the chain)
        self.defs = {}                # name -> [cond]
        self.globs = False
        self.glob_sources = []        # (path segments, cond of the use item)
        self.bodies = {}              # name -> [(kind, cond, hash of the item's tokens)]
        self.children = {}


class Ref_:
    __slots__ = ('file', 'line', 'mod', 'cond', 'segs')

    def __init__(self, file, mod, cond, segs):
        self.file = file
        self.mod = mod
        self.cond = cond
        self.segs = segs


ITEM_KW = {'struct', 'enum', 'fn', 'const', 'static', 'type', 'trait', 'union', 'mod'}
EXTERNAL = {'tokio': 'tokio', 'async_std': 'async-std', 'wow_srp': 'wow_srp', 'chrono': 'chrono', 'serde': 'serde'}


class Crate:
    def __init__(self, name, root, feats, roots_ext=()):
        self.name = name
        self.root = root
        self.f = feats
        self.mods = {}
        self.refs = []
        self.methods = {}            # flavoured method name -> [cond]
        self.method_calls = []       # (file, cond, name)
        self.unparsed = []
        self.body_cfgs = []          # cfg conditions found inside fn bodies
        self.ext = set(EXTERNAL) | set(roots_ext)
        self.scan_file(os.path.join(root, 'src', 'lib.rs'), (), z3.BoolVal(True), os.path.join(root, 'src'))

    def module(self, path, cond):
        if path not in self.mods:
            self.mods[path] = Module(path, cond)
        return self.mods[path]

    def scan_file(self, file, mpath, cond, dirpath):
        try:
            src = open(file).read()
        except OSError:
            self.unparsed.append(file)
            return
        toks = tokens(src)
        self.module(mpath, cond)
        self.scan(toks, 0, len(toks), mpath, cond, file, dirpath, in_fn=False)

    def attr_cond(self, toks, i):
        """toks[i] == '#': returns (index after the attribute, cond or None, is_cfg_attr)"""
        j = i + 1
        if j < len(toks) and toks[j][1] == '!':
            j += 1
        if j >= len(toks) or toks[j][1] != '[':
            return i + 1, None
        depth = 0
        k = j
        while k < len(toks):
            if toks[k][1] == '[':
                depth += 1
            elif toks[k][1] == ']':
                depth -= 1
                if depth == 0:
                    break
            k += 1
        inner = toks[j + 1:k]
        cond = None
        if inner and inner[0][1] == 'cfg' and len(inner) > 2 and inner[1][1] == '(':
            try:
                cond = cfg_expr(inner[2:-1], self.f)
            except Exception:
                cond = None
        return k + 1, cond

    def item_end(self, toks, i, end):
        """index just past the item/statement starting at i: first ';' at depth 0 or the matching '}' of the first '{'"""
        depth = 0
        par = 0
        k = i
        while k < end:
            t = toks[k][1]
            if t in '([':
                par += 1
            elif t in ')]':
                par -= 1
            elif t == '{':
                depth += 1
            elif t == '}':
                depth -= 1
                if depth == 0 and par <= 0:
                    return k + 1
                if depth < 0:
                    return k
            elif t == ';' and depth == 0 and par <= 0:
                return k + 1
            k += 1
        return end

    def scan(self, toks, i, end, mpath, cond, file, dirpath, in_fn):
        mod = self.module(mpath, cond)
        while i < end:
            k, t = toks[i]
            if t == '#':
                # collect consecutive attributes, then the item they apply to
                conds = []
                j = i
                while j < end and toks[j][1] == '#':
                    nj, c = self.attr_cond(toks, j)
                    if nj == j + 1:
                        break
                    if c is not None:
                        conds.append(c)
                    j = nj
                if j == i:
                    i += 1
                    continue
                if toks[i + 1][1] == '!':
                    # inner attribute #![cfg(..)] applies to the enclosing module
                    if conds:
                        cond = z3.And(cond, *conds)
                        mod.cond = cond
                    i = j
                    continue
                e = self.item_end(toks, j, end)
                c2 = z3.And(cond, *conds) if conds else cond
                if conds and in_fn:
                    self.body_cfgs.append((file, z3.And(*conds)))
                self.item(toks, j, e, mpath, c2, file, dirpath, in_fn)
                i = e
                continue
            e = self.item_end(toks, i, end)
            if e <= i:
                i += 1
                continue
            self.item(toks, i, e, mpath, cond, file, dirpath, in_fn)
            i = e

    def item(self, toks, i, e, mpath, cond, file, dirpath, in_fn):
        mod = self.module(mpath, self.mods[mpath].cond if mpath in self.mods else cond)
        # skip visibility
        j = i
        while j < e and toks[j][1] in ('pub', 'unsafe', 'async', 'default', 'extern') or (j < e and toks[j][1] == '(' and j > i and toks[j - 1][1] == 'pub'):
            if toks[j][1] == '(':
                while j < e and toks[j][1] != ')':
                    j += 1
            j += 1
        if j >= e:
            return
        kw = toks[j][1]
        if kw == 'const' and j + 1 < e and toks[j + 1][1] in ('fn', 'unsafe', 'async'):
            while j + 1 < e and toks[j][1] != 'fn':
                j += 1
            kw = 'fn'
        if kw == 'mod' and j + 1 < e and toks[j + 1][0] == 'id':
            name = toks[j + 1][1]
            sub = mpath + (name,)
            mod.defs.setdefault(name, []).append(cond)
            if j + 2 < e and toks[j + 2][1] == ';':
                cands = [os.path.join(dirpath, name + '.rs'), os.path.join(dirpath, name, 'mod.rs')]
                f = next((c for c in cands if os.path.exists(c)), None)
                if f:
                    nd = os.path.join(dirpath, name)
                    self.scan_file(f, sub, cond, nd)
                else:
                    self.module(sub, cond)
                    self.unparsed.append('%s: mod %s' % (file, name))
            else:
                self.module(sub, cond)
                b = j + 2
                while b < e and toks[b][1] != '{':
                    b += 1
                self.scan(toks, b + 1, e - 1, sub, cond, file, os.path.join(dirpath, name), in_fn=False)
            return
        if kw == 'use':
            self.use(toks, j + 1, e, mpath, cond, file, public=(toks[i][1] == 'pub'))
            return
        if kw == 'macro_rules':
            if j + 2 < e:
                mod.defs.setdefault(toks[j + 2][1], []).append(cond)
            return
        if kw in ITEM_KW and j + 1 < e and toks[j + 1][0] == 'id':
            name = toks[j + 1][1]
            if not in_fn:
                mod.defs.setdefault(name, []).append(cond)
                if kw in ('const', 'static', 'fn', 'type'):
                    import hashlib
                    mod.bodies.setdefault(name, []).append((kw, cond, hashlib.md5(' '.join(t[1] for t in toks[j:e]).encode()).hexdigest(), file))
        if kw in ('impl', 'trait', 'fn') or (kw in ITEM_KW):
            # body: scan nested items (methods of impl/trait blocks) and references
            b = j
            while b < e and toks[b][1] != '{':
                b += 1
            self.refs_in(toks, j, min(b, e), mpath, cond, file)
            if b < e:
                if kw in ('impl', 'trait'):
                    self.scan_methods(toks, b + 1, e - 1, mpath, cond, file, dirpath)
                elif kw == 'fn':
                    self.scan(toks, b + 1, e - 1, mpath, cond, file, dirpath, in_fn=True)
                else:
                    self.refs_in(toks, b, e, mpath, cond, file)
            return
        self.refs_in(toks, i, e, mpath, cond, file)

    def scan_methods(self, toks, i, end, mpath, cond, file, dirpath):
        while i < end:
            conds = []
            while i < end and toks[i][1] == '#':
                ni, c = self.attr_cond(toks, i)
                if ni == i + 1:
                    break
                if c is not None:
                    conds.append(c)
                i = ni
            e = self.item_end(toks, i, end)
            if e <= i:
                i += 1
                continue
            c2 = z3.And(cond, *conds) if conds else cond
            # method name
            for j in range(i, min(e, i + 8)):
                if toks[j][1] == 'fn' and j + 1 < e:
                    name = toks[j + 1][1]
                    if name.startswith('tokio_') or name.startswith('astd_'):
                        self.methods.setdefault(name, []).append(c2)
                    b = j
                    while b < e and toks[b][1] != '{':
                        b += 1
                    self.refs_in(toks, j, min(b, e), mpath, c2, file)
                    if b < e:
                        self.scan(toks, b + 1, e - 1, mpath, c2, file, dirpath, in_fn=True)
                    break
            else:
                self.refs_in(toks, i, e, mpath, c2, file)
            i = e

    def use(self, toks, i, e, mpath, cond, file, public):
        """expand a use tree into paths; record re-exported names as definitions"""
        mod = self.mods[mpath]

        def tree(k, prefix):
            # returns index after the tree
            segs = list(prefix)
            while k < e:
                t = toks[k][1]
                if toks[k][0] == 'id' and t != 'as':
                    segs.append(t)
                    k += 1
                elif t == '::':
                    k += 1
                elif t == '{':
                    k += 1
                    while k < e and toks[k][1] != '}':
                        k = tree(k, segs)
                        if k < e and toks[k][1] == ',':
                            k += 1
                    return k + 1
                elif t == '*':
                    mod.globs = True
                    mod.glob_sources.append((list(segs), cond))
                    self.refs.append(Ref_(file, mpath, cond, segs))
                    return k + 1
                elif t == 'as':
                    alias = toks[k + 1][1]
                    self.refs.append(Ref_(file, mpath, cond, segs))
                    mod.defs.setdefault(alias, []).append(cond)
                    return k + 2
                else:
                    break
            if segs and segs != list(prefix):
                self.refs.append(Ref_(file, mpath, cond, segs))
                mod.defs.setdefault(segs[-1], []).append(cond)
            return k
        tree(i, [])

    def refs_in(self, toks, i, e, mpath, cond, file):
        k = i
        while k < e:
            kk, t = toks[k]
            if kk == 'id' and k + 1 < e and toks[k + 1][1] == '::' and (k == i or toks[k - 1][1] not in ('::', '.')):
                if t in ('crate', 'super', 'self') or t in self.ext:
                    segs = [t]
                    j = k + 1
                    while j + 1 < e and toks[j][1] == '::' and toks[j + 1][0] == 'id':
                        segs.append(toks[j + 1][1])
                        j += 2
                    self.refs.append(Ref_(file, mpath, cond, segs))
                    k = j
                    continue
            if kk == 'id' and (t.startswith('tokio_') or t.startswith('astd_')) and k + 1 < e and toks[k + 1][1] in ('(', '::') and k > i and toks[k - 1][1] in ('.', '::'):
                self.method_calls.append((file, cond, t))
            k += 1

    # ------------------------------------------------------------------ resolution
    def lookup(self, mp, name, depth=0):
        """name as seen from inside module mp -> ('mod', path, cond) | ('def', cond) | None"""
        cache = self.__dict__.setdefault('_lk', {})
        key = (mp, name)
        if key in cache:
            return cache[key]
        cache[key] = None          # cycle guard
        r = self._lookup(mp, name, depth)
        cache[key] = r
        return r

    def _lookup(self, mp, name, depth=0):
        nxt = mp + (name,)
        if nxt in self.mods:
            return ('mod', nxt, self.mods[nxt].cond)
        m = self.mods.get(mp)
        if m is None:
            return None
        ds = m.defs.get(name)
        if ds is not None:
            return ('def', z3.Or(*ds) if len(ds) > 1 else ds[0])
        if depth >= 5:
            return None
        alts = []
        for gsegs, gcond in m.glob_sources:
            t = self.walk(mp, gsegs, depth + 1)
            if t is None or t[0] != 'mod':
                continue
            r = self.lookup(t[1], name, depth + 1)
            if r is None:
                continue
            if r[0] == 'mod':
                return ('mod', r[1], z3.And(gcond, t[2], r[2]))
            alts.append(z3.And(gcond, t[2], r[1]))
        if alts:
            return ('def', z3.Or(*alts) if len(alts) > 1 else alts[0])
        return None

    def walk(self, mp, segs, depth=0):
        """resolve a path written inside module mp -> ('mod', path, need) | ('def', need) | None"""
        segs = list(segs)
        cur = mp
        if segs and segs[0] == 'crate':
            cur = ()
            segs = segs[1:]
        elif segs and segs[0] == 'self':
            segs = segs[1:]
        else:
            while segs and segs[0] == 'super':
                if not cur:
                    return None
                cur = cur[:-1]
                segs = segs[1:]
        need = [self.mods[cur].cond] if cur in self.mods else []
        while segs:
            r = self.lookup(cur, segs[0], depth)
            if r is None:
                return None
            if r[0] == 'mod':
                cur = r[1]
                need.append(r[2])
                segs = segs[1:]
                continue
            need.append(r[1])
            return ('def', z3.And(*need))
        return ('mod', cur, z3.And(*need) if need else z3.BoolVal(True))

    def resolve(self, ref):
        """-> ('ok', required condition) | ('ext', dependency name) | ('unknown', why)"""
        segs = list(ref.segs)
        if segs[0] in ('std', 'core', 'alloc'):
            return 'ext', segs[0]
        if segs[0] in self.ext and segs[0] not in ('crate', 'super', 'self'):
            return 'ext', segs[0]
        r = self.walk(ref.mod, segs)
        if r is None:
            return 'unknown', 'unresolved %s' % '::'.join(segs[:3])
        return 'ok', r[-1]
