"""MIRSYM: symbolic execution of rustc's monomorphised MIR (as dumped by tools/mirdump) with z3.

Design (DESIGN.md 2.1): one z3 term per scalar; aggregates are Python objects; std containers are modelled at API
level (models.py); an undecided branch asks the solver which successors are feasible and forks by *re-execution with a
recorded decision prefix* (no state copying); calls with a pure signature are executed on all paths and merged into
one ite/union value.  Anything the interpreter cannot execute raises Unsupported -> the target is inconclusive."""
import json
import mmap
import os
import sys
import time
import z3

sys.setrecursionlimit(20000)


# ------------------------------------------------------------------ values
class Cell:
    __slots__ = ('val',)

    def __init__(self, val=None):
        self.val = val


class Agg:
    __slots__ = ('f',)

    def __init__(self, f):
        self.f = f

    def __repr__(self):
        return 'Agg(%r)' % (self.f,)


class EnumV:
    __slots__ = ('d', 'f')

    def __init__(self, d, f):
        self.d = d
        self.f = f

    def __repr__(self):
        return 'Enum#%r(%r)' % (self.d, self.f)


class SymEnum:
    """alts: list of (cond, variant_index, fields); conds mutually exclusive and exhaustive under the path condition"""
    __slots__ = ('alts',)

    def __init__(self, alts):
        self.alts = alts

    def __repr__(self):
        return 'SymEnum(%r)' % ([a[1] for a in self.alts],)


class Ref:
    __slots__ = ('cell', 'path')

    def __init__(self, cell, path=()):
        self.cell = cell
        self.path = list(path)

    def __repr__(self):
        return 'Ref(%r)' % (self.path,)


class SliceRef:
    """fat pointer: elements lst[start:start+len]; lst is shared (mutation through the slice is visible).
    tail: optional z3 64-bit term = number of further opaque elements after the concrete ones (symbolic-length data)"""
    __slots__ = ('lst', 'start', 'len', 'tail')

    def __init__(self, lst, start, ln, tail=None):
        self.lst = lst
        self.start = start
        self.len = ln
        self.tail = tail

    def items(self):
        return self.lst[self.start:self.start + self.len]

    def __repr__(self):
        return 'Slice[%d+%d]' % (self.start, self.len)


class VecV:
    """tail: optional z3 64-bit term = number of opaque elements after lst (symbolic-length vectors, C02/C05)"""
    __slots__ = ('lst', 'tail')

    def __init__(self, lst, tail=None):
        self.lst = lst
        self.tail = tail

    def __repr__(self):
        return 'Vec(%d)' % len(self.lst)


class StrV:
    """String = Vec<u8> known to be valid UTF-8"""
    __slots__ = ('vec',)

    def __init__(self, vec):
        self.vec = vec

    def __repr__(self):
        return 'Str(%d)' % len(self.vec.lst)


class IterV:
    """slice::Iter / IterMut / vec::IntoIter over lst[a:b]; by_ref: yields references (else values)"""
    __slots__ = ('lst', 'a', 'b', 'by_ref')

    def __init__(self, lst, a, b, by_ref=True):
        self.lst = lst
        self.a = a
        self.b = b
        self.by_ref = by_ref


class StreamV:
    """abstract input stream for the framing checks: `head` = symbolic bytes at the front, everything after is opaque;
    pos = number of bytes consumed so far (int or z3 64-bit term)"""

    def __init__(self, head):
        self.head = head
        self.pos = 0
        self.reads = []      # (length consumed) per read_exact call


class Opaque:
    def __init__(self, what, **kw):
        self.what = what
        self.kw = kw

    def __repr__(self):
        return 'Opaque(%s)' % self.what


class FnPtr:
    def __init__(self, key):
        self.key = key


class CoroV:
    """coroutine state machine value: upvars, state discriminant, per-variant saved locals"""

    def __init__(self, ty, up):
        self.ty = ty
        self.up = up
        self.state = 0
        self.saved = {}


UNIT = Agg([])


class PathEnd(Exception):
    """the current path stops here (panic, unreachable, abort, diverging call)"""

    def __init__(self, status, detail=''):
        Exception.__init__(self, status + (':' + detail if detail else ''))
        self.status = status
        self.detail = detail


class Unsupported(Exception):
    pass


class CannotMerge(Exception):
    pass


# ------------------------------------------------------------------ z3 helpers
def is_val(x):
    return z3.is_bv_value(x) or z3.is_true(x) or z3.is_false(x)


def simp(x):
    if z3.is_expr(x) and not is_val(x):
        return z3.simplify(x)
    return x


def concrete(x):
    if isinstance(x, int):
        return x
    if not z3.is_expr(x):
        return None
    if z3.is_bv_value(x):
        return x.as_long()
    if z3.is_true(x):
        return 1
    if z3.is_false(x):
        return 0
    x = z3.simplify(x)
    if z3.is_bv_value(x):
        return x.as_long()
    if z3.is_true(x):
        return 1
    if z3.is_false(x):
        return 0
    return None


def BV(n, w):
    return z3.BitVecVal(n, w)


def slice_len(x):
    return BV(x.len, 64) if getattr(x, 'tail', None) is None else BV(x.len, 64) + x.tail


def bool_to_bv(v, w=8):
    if z3.is_true(v):
        return BV(1, w)
    if z3.is_false(v):
        return BV(0, w)
    return z3.If(v, BV(1, w), BV(0, w))


def merge_vals(pairs):
    """pairs: list of (cond, value); returns one value (ite / union)"""
    vals = [v for _, v in pairs]
    if len(pairs) == 1:
        return vals[0]
    v0 = vals[0]
    if all(z3.is_expr(v) for v in vals):
        r = vals[-1]
        for c, v in reversed(pairs[:-1]):
            r = z3.If(c, v, r)
        return r
    if all(isinstance(v, Agg) for v in vals) and len(set(len(v.f) for v in vals)) == 1:
        return Agg([merge_vals([(c, v.f[i]) for c, v in pairs]) for i in range(len(v0.f))])
    if all(isinstance(v, (EnumV, SymEnum)) for v in vals):
        flat = []
        for c, v in pairs:
            if isinstance(v, EnumV):
                flat.append((c, v.d, v.f))
            else:
                flat.extend((z3.And(c, c2), d, f) for c2, d, f in v.alts)
        byv = {}
        for c, d, f in flat:
            byv.setdefault(d, []).append((c, f))
        alts = []
        for d, lst in byv.items():
            n = len(lst[0][1])
            fields = [merge_vals([(c, f[i]) for c, f in lst]) for i in range(n)]
            alts.append((z3.Or(*[c for c, _ in lst]) if len(lst) > 1 else lst[0][0], d, fields))
        if len(alts) == 1:
            return EnumV(alts[0][1], alts[0][2])
        return SymEnum(alts)
    if all(isinstance(v, Opaque) for v in vals):
        return v0
    if all(isinstance(v, SliceRef) for v in vals) and all(v.lst is v0.lst and v.start == v0.start and v.len == v0.len for v in vals):
        return v0
    raise CannotMerge()


def subst_val(v, subs):
    """substitute z3 placeholders inside a (pure, reference-free) value"""
    if z3.is_expr(v):
        return z3.substitute(v, *subs)
    if isinstance(v, Agg):
        return Agg([subst_val(x, subs) for x in v.f])
    if isinstance(v, EnumV):
        return EnumV(v.d, [subst_val(x, subs) for x in v.f])
    if isinstance(v, SymEnum):
        return SymEnum([(z3.substitute(c, *subs), d, [subst_val(x, subs) for x in f]) for c, d, f in v.alts])
    if isinstance(v, Opaque):
        return v
    if isinstance(v, SliceRef):
        return v   # constant data (e.g. &'static str)
    raise CannotMerge()


# ------------------------------------------------------------------ program (lazy index over the dump file)
class Prog:
    def __init__(self, path):
        self.path = path
        self.f = open(path, 'rb')
        self.mm = mmap.mmap(self.f.fileno(), 0, access=mmap.ACCESS_READ)
        self.idx = {'fn': {}, 'ty': {}, 'adt': {}, 'alloc': {}}
        self.roots = []
        self.vimpl = {}
        self.templates = {}
        self.rooterr = []
        self._cache = {'fn': {}, 'ty': {}, 'adt': {}, 'alloc': {}}
        self.byname = {}
        pos = 0
        mm = self.mm
        n = len(mm)
        while pos < n:
            e = mm.find(b'\n', pos)
            if e < 0:
                e = n
            t1 = mm.find(b'\t', pos, e)
            t2 = mm.find(b'\t', t1 + 1, e)
            kind = mm[pos:t1].decode()
            ident = mm[t1 + 1:t2].decode()
            if kind in self.idx:
                self.idx[kind][ident] = (t2 + 1, e)
            elif kind == 'root':
                r = json.loads(mm[t2 + 1:e])
                r['key'] = ident
                self.roots.append(r)
            elif kind == 'vimpl':
                r = json.loads(mm[t2 + 1:e])
                self.vimpl[(r['trait_fn'], r['self_ty'])] = r['key']
            elif kind == 'template':
                self.templates[int(ident)] = json.loads(mm[t2 + 1:e])
            elif kind == 'rooterr':
                self.rooterr.append((ident, json.loads(mm[t2 + 1:e])))
            pos = e + 1
        self._bool_ty = None

    def _get(self, kind, ident):
        c = self._cache[kind]
        v = c.get(ident)
        if v is None:
            a, b = self.idx[kind][ident]
            v = json.loads(self.mm[a:b])
            c[ident] = v
        return v

    def fn(self, key):
        return self._get('fn', key)

    def has_fn(self, key):
        return key in self.idx['fn']

    def ty(self, t):
        return self._get('ty', str(t))

    def adt(self, t):
        return self._get('adt', str(t))

    def alloc(self, a):
        return self._get('alloc', str(a))

    def arg_types(self, key):
        """types of the arguments of a function with a body"""
        fn = self.fn(key)
        return [l['ty'] for l in fn['body']['locals'][1:1 + fn['arg_count']]]

    def fn_keys(self):
        return list(self.idx['fn'])

    def tk(self, ty):
        k = self.ty(ty)['kind']
        return k.get('RigidTy') if isinstance(k, dict) else k

    def ty_str(self, ty):
        return self.ty(ty)['str']

    def int_info(self, ty):
        """(width, signed) for integer-like scalar types; ('bool', False) for bool; None otherwise"""
        r = self.tk(ty)
        if isinstance(r, dict):
            if 'Uint' in r:
                return (self.ty(ty)['size'] * 8, False)
            if 'Int' in r:
                return (self.ty(ty)['size'] * 8, True)
            if 'Float' in r:
                return (self.ty(ty)['size'] * 8, False)
        if r == 'Bool':
            return ('bool', False)
        if r == 'Char':
            return (32, False)
        return None

    def is_float(self, ty):
        r = self.tk(ty)
        return isinstance(r, dict) and 'Float' in r

    def is_enum(self, ty):
        r = self.tk(ty)
        return isinstance(r, dict) and 'Adt' in r and self.adt(ty)['adt_kind'] == 'enum'

    def byname_lookup(self, name):
        """key of the dumped function with exactly this instance name (index built on first use)"""
        if not hasattr(self, '_names'):
            self._names = {}
            import re as _re
            for k, (a, b) in self.idx['fn'].items():
                m = _re.search(rb'"name":"((?:[^"\\\\]|\\\\.)*)"', self.mm[a:min(b, a + 4000)]) if False else None
            for k in self.idx['fn']:
                a, b = self.idx['fn'][k]
                chunk = self.mm[b - 600:b] if b - a > 600 else self.mm[a:b]
                # "name" is one of the last keys of the record (serde_json sorts keys): cheap tail scan, fall back to full parse
                i = chunk.rfind(b'"name":"')
                if i >= 0:
                    j = chunk.find(b'"', i + 8)
                    nm = chunk[i + 8:j].decode()
                else:
                    nm = self.fn(k)['name']
                self._names.setdefault(nm, k)
        return self._names.get(name)

    def root_by_name(self, sub):
        return [r for r in self.roots if sub in r['name']]


# ------------------------------------------------------------------ one path
class Path:
    def __init__(self, prefix):
        self.prefix = prefix       # decisions to replay
        self.pos = 0
        self.taken = []            # all decisions made on this path
        self.pc = []               # path condition (z3 Bools)
        self.pending = []          # new prefixes discovered
        self.status = 'run'
        self.detail = ''
        self.result = None
        self.env = {}
        self.events = []           # monitor events (allocation requests etc.)
        self.model = None          # guiding model (concolic mode): decisions follow it without solver calls
        self.steps = 0


class Exec:
    def __init__(self, prog, models=None):
        self.p = prog
        self.solver = z3.Solver()
        self.solver.set('timeout', 10000)
        self.stats = {'paths': 0, 'checks': 0, 'steps': 0, 'merged': 0, 'solver_s': 0.0, 'cache_hits': 0}
        self.max_steps = 400000
        self.max_paths = 2000
        self.merge_calls = True
        self.pure_cache = {}
        self.stubs = []
        self.sym_len_ok = False
        self.sub_solver = z3.Solver()
        self.sub_solver.set('timeout', 10000)
        self.switch_cache = {}
        self.path = None
        self.fns_reached = set()
        from . import models as _m
        self.models = _m
        self.assumptions = []      # global assumptions added to every feasibility query (validity predicate)
        self.alloc_budget = 16 << 20
        self.fresh_n = 0

    # ---------------------------------------------------------------- solver
    def set_assumptions(self, cons):
        """install the global assumptions (validity predicate of the current shape) once; checks are incremental on top"""
        self.assumptions = list(cons)
        self.solver.reset()
        self.solver.set('timeout', 10000)
        for c in self.assumptions:
            self.solver.add(c)
        self._asserted = len(self.assumptions)

    def check(self, conds):
        self.stats['checks'] += 1
        t = time.time()
        if getattr(self, '_asserted', 0) != len(self.assumptions):
            self.set_assumptions(self.assumptions)
        self.solver.push()
        for c in conds:
            self.solver.add(c)
        r = self.solver.check()
        self.solver.pop()
        self.stats['solver_s'] += time.time() - t
        return r

    def feasible(self, cond):
        if z3.is_true(cond):
            return True
        if z3.is_false(cond):
            return False
        if self.path is not None and self.path.model is not None:
            # concolic mode: the caller follows up with branch(cond); other outcomes are found by the coverage loop
            return True
        r = self.check(self.path.pc + [cond])
        if r == z3.unknown:
            raise Unsupported('solver unknown in feasibility check')
        return r == z3.sat

    def choose(self, alts, free_var=None):
        """alts: list of Bool conditions, mutually exclusive and exhaustive. Returns chosen index; forks others."""
        P = self.path
        if P.model is not None:
            hit = None
            for i, c in enumerate(alts):
                if z3.is_true(P.model.eval(c, model_completion=True)):
                    hit = i
                    break
            if hit is None:
                raise Unsupported('guiding model satisfies no alternative')
            P.taken.append(hit)
            if not z3.is_true(alts[hit]):
                P.pc.append(alts[hit])
            return hit
        if P.pos < len(P.prefix):
            i = P.prefix[P.pos]
            P.pos += 1
            P.taken.append(i)
            P.pc.append(alts[i])
            return i
        if free_var is not None and not P.pc and not self.assumptions:
            # the switched value is an unconstrained variable: every listed value is feasible, 'otherwise' too unless all values are listed
            live = list(range(len(alts) - 1))
            if len(alts) - 1 < (1 << min(free_var.size(), 30)):
                live.append(len(alts) - 1)
        else:
            live = [i for i, c in enumerate(alts) if self.feasible(c)]
        if not live:
            raise PathEnd('infeasible')
        for i in live[1:]:
            P.pending.append(P.taken + [i])
        P.pos += 1
        P.taken.append(live[0])
        if len(live) > 1 or not z3.is_true(alts[live[0]]):
            P.pc.append(alts[live[0]])
        return live[0]

    def branch(self, cond):
        """returns Python bool for a z3 Bool, forking when undecided"""
        c = concrete(cond)
        if c is not None:
            return bool(c)
        cond = simp(cond)
        return self.choose([cond, z3.Not(cond)]) == 0

    def fresh(self, name, w):
        self.fresh_n += 1
        return z3.BitVec('%s!%d' % (name, self.fresh_n), w)

    def fresh_value(self, ty, name, depth=0):
        """symbolic value of a (reference-free, plain data) type: structs/tuples/arrays of integers, field-less enums excluded"""
        ii = self.p.int_info(ty)
        if ii:
            return z3.Bool(name) if ii[0] == 'bool' else z3.BitVec(name, ii[0])
        r = self.p.tk(ty)
        if isinstance(r, dict) and 'Adt' in r:
            a = self.p.adt(ty)
            if a['adt_kind'] == 'struct':
                return Agg([self.fresh_value(f['ty'], '%s.%s' % (name, f['name']), depth + 1) for f in a['variants'][0]['fields']])
            raise Unsupported('fresh value of %s' % a['name'])
        if isinstance(r, dict) and 'Tuple' in r:
            return Agg([self.fresh_value(t, '%s.%d' % (name, i), depth + 1) for i, t in enumerate(r['Tuple'])])
        if isinstance(r, dict) and 'Array' in r:
            n = self.array_len(ty)
            if n > 64:
                return Agg([Opaque('bulk') for _ in range(n)])
            return Agg([self.fresh_value(r['Array'][0], '%s[%d]' % (name, i), depth + 1) for i in range(n)])
        raise Unsupported('fresh value of type %s' % self.p.ty_str(ty))

    # ---------------------------------------------------------------- exploration
    def explore(self, fn_key, mk_args, on_path=None, env=None, pc0=None):
        """Run fn on all feasible paths. mk_args() builds fresh argument values for each path (state is mutated).
        Returns list of Path objects (status: ret | panic:* | unsupported:* | ...)."""
        work = [[]]
        done = []
        while work:
            prefix = work.pop()
            if len(done) >= self.max_paths:
                P = Path(prefix)
                P.status = 'unsupported'
                P.detail = 'path budget (%d)' % self.max_paths
                done.append(P)
                break
            P = Path(prefix)
            if pc0:
                P.pc = list(pc0)
            if env:
                P.env = dict(env)
            saved = self.path
            self.path = P
            self.stats['paths'] += 1
            try:
                args = mk_args()
                P.result = self.call(fn_key, args)
                P.status = 'ret'
            except PathEnd as e:
                P.status = e.status
                P.detail = e.detail
            except Unsupported as e:
                P.status = 'unsupported'
                P.detail = str(e)
            except CannotMerge as e:
                P.status = 'unsupported'
                P.detail = 'cannot merge'
            finally:
                self.path = saved
            work.extend(P.pending)
            done.append(P)
            if on_path:
                on_path(P)
        return done

    def explore_guided(self, fn_key, mk_args, pc0=None, env=None, on_path=None):
        """Concolic exploration under self.assumptions (+pc0): each path follows a model of the not-yet-covered inputs;
        one solver call per path plus one final call showing that the explored path conditions cover every input."""
        done = []
        s = self.solver
        if getattr(self, '_asserted', 0) != len(self.assumptions):
            self.set_assumptions(self.assumptions)
        s.push()
        try:
            for c in (pc0 or []):
                s.add(c)
            while True:
                self.stats['checks'] += 1
                t = time.time()
                r = s.check()
                self.stats['solver_s'] += time.time() - t
                if r == z3.unknown:
                    P = Path([])
                    P.status = 'unsupported'
                    P.detail = 'solver unknown in coverage query'
                    done.append(P)
                    break
                if r == z3.unsat:
                    break
                if len(done) >= self.max_paths:
                    P = Path([])
                    P.status = 'unsupported'
                    P.detail = 'path budget (%d)' % self.max_paths
                    done.append(P)
                    break
                m = s.model()
                P = Path([])
                P.model = m
                P.pc = list(pc0 or [])
                if env:
                    P.env = dict(env)
                saved = self.path
                self.path = P
                self.stats['paths'] += 1
                try:
                    args = mk_args()
                    P.result = self.call(fn_key, args)
                    P.status = 'ret'
                except PathEnd as e:
                    P.status = e.status
                    P.detail = e.detail
                except Unsupported as e:
                    P.status = 'unsupported'
                    P.detail = str(e)
                except CannotMerge:
                    P.status = 'unsupported'
                    P.detail = 'cannot merge'
                finally:
                    self.path = saved
                P.model = None
                done.append(P)
                if on_path:
                    on_path(P)
                if P.status == 'unsupported':
                    break
                own = P.pc[len(pc0 or []):]
                if not own:
                    break     # the path condition is 'true': it covers everything
                s.add(z3.Not(z3.And(*own)) if len(own) > 1 else z3.Not(own[0]))
        finally:
            s.pop()
        return done

    # ---------------------------------------------------------------- calls
    def call(self, key, args):
        fn = self.p.fn(key)
        self.fns_reached.add(fn['name'])
        if fn['body'] is None:
            return self.models.call_model(self, fn, args, None)
        return self.exec_body(fn, args)

    def is_pure_sig(self, fn):
        c = fn.get('_pure')
        if c is not None:
            return c
        b = fn['body']
        ok = True
        for l in b['locals'][1:1 + fn['arg_count']]:
            if self.p.int_info(l['ty']):
                continue
            r = self.p.tk(l['ty'])
            if isinstance(r, dict) and 'Ref' in r and r['Ref'][2] == 'Not':
                inner = r['Ref'][1]
                if self.p.int_info(inner) or self._fieldless_enum(inner):
                    continue
            if self._fieldless_enum(l['ty']):
                continue
            ok = False
            break
        if ok:
            rr = self.p.tk(b['locals'][0]['ty'])
            ok = not (isinstance(rr, dict) and ('Ref' in rr or 'RawPtr' in rr))
        if ok and fn['arg_count'] == 0:
            ok = False
        fn['_pure'] = ok
        return ok

    def _fieldless_enum(self, ty):
        r = self.p.tk(ty)
        if isinstance(r, dict) and 'Adt' in r:
            a = self.p.adt(ty)
            return a['adt_kind'] == 'enum' and all(not v['fields'] for v in a['variants'])
        return False

    def pure_call(self, fn, key, args):
        """execute a pure callee on all paths with placeholder arguments (cached per process), substitute actuals"""
        ent = self.pure_cache.get(key)
        if ent is None:
            b = fn['body']
            phs = []
            kinds = []
            for i, l in enumerate(b['locals'][1:1 + fn['arg_count']]):
                ty = l['ty']
                ii = self.p.int_info(ty)
                if ii:
                    kinds.append('int')
                    phs.append(z3.Bool('ph!%s!%d' % (key[-12:], i)) if ii[0] == 'bool' else z3.BitVec('ph!%s!%d' % (key[-12:], i), ii[0]))
                    continue
                r = self.p.tk(ty)
                if isinstance(r, dict) and 'Ref' in r:
                    inner = r['Ref'][1]
                    ii = self.p.int_info(inner)
                    if ii:
                        kinds.append('refint')
                        phs.append(z3.Bool('ph!%s!%d' % (key[-12:], i)) if ii[0] == 'bool' else z3.BitVec('ph!%s!%d' % (key[-12:], i), ii[0]))
                    else:
                        kinds.append('refenum')
                        phs.append(None)
                else:
                    kinds.append('enum')
                    phs.append(None)
            if any(k in ('refenum', 'enum') for k in kinds):
                ent = ('enum', kinds, phs, {})
            else:
                def mk():
                    return [Ref(Cell(ph)) if k == 'refint' else ph for k, ph in zip(kinds, phs)]
                sub = Exec.__new__(Exec)
                sub.__dict__.update(self.__dict__)
                sub.path = None
                sub.assumptions = []
                sub._asserted = 0
                sub.solver = self.sub_solver
                sub.max_paths = 200000
                outs = sub.explore(key, mk)
                self.fns_reached |= sub.fns_reached
                if all(o.status == 'ret' for o in outs):
                    try:
                        val = merge_vals([(z3.And(*o.pc) if o.pc else z3.BoolVal(True), o.result) for o in outs])
                        ent = ('ok', kinds, phs, val)
                    except CannotMerge:
                        ent = ('no',)
                else:
                    ent = ('no',)
            self.pure_cache[key] = ent
        if ent[0] == 'no':
            return None
        if ent[0] == 'ok':
            _, kinds, phs, val = ent
            subs = []
            for k, ph, a in zip(kinds, phs, args):
                if k == 'refint':
                    a = self.read_ref(a)
                if not z3.is_expr(a):
                    return None
                if not a.sort().eq(ph.sort()):
                    return None
                subs.append((ph, a))
            self.stats['merged'] += 1
            try:
                return subst_val(val, subs)
            except CannotMerge:
                return None
        # enum-argument pure call: evaluate per variant (concrete), cache table
        _, kinds, phs, table = ent
        enum_pos = [i for i, k in enumerate(kinds) if k in ('refenum', 'enum')]
        if len(enum_pos) != 1 or len(kinds) != 1:
            return None
        a = args[0]
        if kinds[0] == 'refenum':
            a = self.read_ref(a)
        if isinstance(a, EnumV):
            alts = [(z3.BoolVal(True), a.d, a.f)]
        elif isinstance(a, SymEnum):
            alts = a.alts
        else:
            return None
        pairs = []
        for c, d, f in alts:
            if f:
                return None
            if d not in table:
                def mk(d=d):
                    v = EnumV(d, [])
                    return [Ref(Cell(v)) if kinds[0] == 'refenum' else v]
                sub = Exec.__new__(Exec)
                sub.__dict__.update(self.__dict__)
                sub.path = None
                sub.assumptions = []
                sub._asserted = 0
                sub.solver = self.sub_solver
                sub.max_paths = 200000
                outs = sub.explore(key, mk)
                self.fns_reached |= sub.fns_reached
                if len(outs) != 1 or outs[0].status != 'ret':
                    table[d] = None
                else:
                    table[d] = outs[0].result
            if table[d] is None:
                return None
            pairs.append((c, table[d]))
        self.stats['merged'] += 1
        try:
            return merge_vals(pairs)
        except CannotMerge:
            return None

    def read_ref(self, r):
        if isinstance(r, Ref):
            return self.read(r.cell, r.path)
        return r

    # ---------------------------------------------------------------- places
    def resolve(self, fr, place):
        cell = fr[place['local']]
        path = []
        special = None  # SliceRef deref
        for pe in place['projection']:
            if pe == 'Deref':
                v = self.read(cell, path, special)
                special = None
                if isinstance(v, Ref):
                    cell, path = v.cell, list(v.path)
                elif isinstance(v, SliceRef):
                    special = v
                    cell = None
                    path = []
                elif isinstance(v, Agg) and len(v.f) >= 1 and isinstance(v.f[0], (Ref, SliceRef)):
                    # Box<T> / Pin<&mut T> / Unique / NonNull wrappers around a modelled pointer
                    v = v.f[0]
                    if isinstance(v, Ref):
                        cell, path = v.cell, list(v.path)
                    else:
                        special = v
                        cell = None
                        path = []
                else:
                    raise Unsupported('deref of %r' % (v,))
            elif isinstance(pe, dict) and 'Field' in pe:
                path = path + [pe['Field'][0]]
            elif isinstance(pe, dict) and 'Downcast' in pe:
                path = path + [('dc', pe['Downcast'])]
            elif isinstance(pe, dict) and 'Index' in pe:
                i = concrete(fr[pe['Index']].val)
                if i is None:
                    raise Unsupported('symbolic index')
                path = path + [('ix', i)]
            elif isinstance(pe, dict) and 'ConstantIndex' in pe:
                ci = pe['ConstantIndex']
                if ci.get('from_end'):
                    raise Unsupported('ConstantIndex from_end')
                path = path + [('ix', ci['offset'])]
            elif pe == 'OpaqueCast' or (isinstance(pe, dict) and ('OpaqueCast' in pe or 'Subtype' in pe)):
                pass
            else:
                raise Unsupported('projection %r' % (pe,))
        return cell, path, special

    def _step(self, v, p, pend):
        """one projection step on value v; returns (new value, new pend)"""
        if isinstance(p, tuple):
            if p[0] == 'dc':
                if isinstance(v, SymEnum):
                    m = [a for a in v.alts if a[1] == p[1]]
                    if not m:
                        raise PathEnd('infeasible', 'downcast to absent variant')
                    return EnumV(p[1], m[0][2]), None
                if isinstance(v, CoroV):
                    return v, p[1]
                return v, None
            # ('ix', i): array / slice / vec element
            i = p[1]
            if isinstance(v, Agg):
                return self._idx(v.f, i), None
            if isinstance(v, VecV):
                return self._idx(v.lst, i), None
            if isinstance(v, SliceRef):
                if i >= v.len:
                    raise PathEnd('panic', 'index out of bounds')
                return v.lst[v.start + i], None
            raise Unsupported('index into %r' % (v,))
        if isinstance(v, CoroV):
            return (v.saved[(pend, p)] if pend is not None else v.up[p]), None
        if isinstance(v, (Agg, EnumV)):
            return v.f[p], None
        if isinstance(v, (Ref, SliceRef)):
            return v, None   # Box/Unique/NonNull wrappers around a modelled pointer are transparent
        if isinstance(v, StrV) and p == 0:
            return v.vec, None
        if isinstance(v, VecV):
            return v, None    # fields of Vec are not modelled; transparent
        if isinstance(v, Opaque):
            return v, None
        raise Unsupported('field %r of %r' % (p, v))

    def _idx(self, lst, i):
        if i >= len(lst):
            raise PathEnd('panic', 'index out of bounds')
        return lst[i]

    def read(self, cell, path, special=None):
        if special is not None:
            v = special
        else:
            v = cell.val
        pend = None
        for p in path:
            v, pend = self._step(v, p, pend)
        return v

    def write(self, cell, path, val, special=None):
        real = [p for p in path if not (isinstance(p, tuple) and p[0] == 'dc')]
        if not real:
            if special is not None:
                raise Unsupported('write whole slice')
            cell.val = val
            return
        v = special if special is not None else cell.val
        pend = None
        # walk to the container of the last real step
        last_i = max(i for i, p in enumerate(path) if not (isinstance(p, tuple) and p[0] == 'dc'))
        for p in path[:last_i]:
            v, pend = self._step(v, p, pend)
        last = path[last_i]
        if isinstance(last, tuple):
            i = last[1]
            if isinstance(v, Agg):
                v.f[i] = val
            elif isinstance(v, VecV):
                v.lst[i] = val
            elif isinstance(v, SliceRef):
                if i >= v.len:
                    raise PathEnd('panic', 'index out of bounds')
                v.lst[v.start + i] = val
            else:
                raise Unsupported('index-write into %r' % (v,))
            return
        if isinstance(v, CoroV):
            if pend is not None:
                v.saved[(pend, last)] = val
            else:
                v.up[last] = val
        elif isinstance(v, SymEnum):
            raise Unsupported('write into symbolic enum field')
        elif isinstance(v, (Agg, EnumV)):
            while len(v.f) <= last:
                v.f.append(None)
            v.f[last] = val
        elif isinstance(v, StrV) and last == 0:
            v.vec = val
        else:
            raise Unsupported('field-write %r into %r' % (last, v))

    def clone(self, v):
        if type(v) is not Agg and isinstance(v, Agg):
            return v      # annotated aggregates (Duration) are immutable values
        if isinstance(v, Agg):
            return Agg([self.clone(x) for x in v.f])
        if isinstance(v, EnumV):
            return EnumV(v.d, [self.clone(x) for x in v.f])
        if isinstance(v, SymEnum):
            return SymEnum([(c, d, [self.clone(x) for x in f]) for c, d, f in v.alts])
        return v   # scalars immutable; Vec/Str/Iter/Coro are moved, not copied (MIR moves are copies of the handle)

    # ---------------------------------------------------------------- constants
    def const(self, c):
        ty = c['const_']['ty']
        kind = c['const_']['kind']
        if kind == 'ZeroSized':
            r = self.p.tk(ty)
            if isinstance(r, dict) and 'FnDef' in r:
                return Opaque('fndef', ty=ty)
            if isinstance(r, dict) and ('Adt' in r or 'Tuple' in r or 'Closure' in r):
                return Agg([])
            if isinstance(r, dict) and 'Array' in r:
                return Agg([Agg([]) for _ in range(self.array_len(ty))])
            return Opaque('zst', ty=ty)
        if isinstance(kind, dict) and 'Allocated' in kind:
            al = kind['Allocated']
            return self.from_bytes(ty, al['bytes'], al['provenance']['ptrs'])
        raise Unsupported('const %r' % (kind,))

    def _layout_offsets(self, ty):
        f = self.p.ty(ty)['fields']
        if isinstance(f, dict) and 'Arbitrary' in f:
            return [o['num_bits'] // 8 for o in f['Arbitrary']['offsets']]
        return None

    def from_bytes(self, ty, bs, ptrs=None, base=0):
        """decode a constant allocation as a value of type ty. ptrs: [[offset, alloc_id]]"""
        ptrs = ptrs or []
        ii = self.p.int_info(ty)
        size = self.p.ty(ty)['size']
        if ii:
            raw = bs[:size]
            if any(b is None for b in raw):
                return self.fresh('uninit', 8 * size) if ii[0] != 'bool' else z3.BoolVal(False)
            n = int.from_bytes(bytes(raw), 'little')
            return z3.BoolVal(n != 0) if ii[0] == 'bool' else BV(n, ii[0])
        r = self.p.tk(ty)
        if isinstance(r, dict) and ('Ref' in r or 'RawPtr' in r):
            inner = r['Ref'][1] if 'Ref' in r else r['RawPtr'][0]
            here = [p for p in ptrs if p[0] == base]
            if not here:
                return Opaque('ptrconst', ty=ty)
            a = self.p.alloc(here[0][1])
            ir = self.p.tk(inner)
            if 'fn' in a:
                return FnPtr(a['fn']['key'])
            if 'mem' not in a:
                return Opaque('ptrconst', ty=ty)
            mem = a['mem']
            if ir == 'Str' or (isinstance(ir, dict) and 'Slice' in ir):
                ln = int.from_bytes(bytes(bs[8:16]), 'little')
                if ir == 'Str' or self.p.ty(ir['Slice'])['size'] == 1 and self.p.int_info(ir['Slice']):
                    lst = [BV(b if b is not None else 0, 8) for b in mem['bytes'][:ln]]
                    return SliceRef(lst, 0, len(lst))
                et = ir['Slice']
                esz = self.p.ty(et)['size']
                lst = [self.from_bytes(et, mem['bytes'][i * esz:(i + 1) * esz], [[p[0] - i * esz, p[1]] for p in mem['provenance']['ptrs']], 0) for i in range(ln)]
                return SliceRef(lst, 0, ln)
            if isinstance(ir, dict) and 'Dynamic' in ir:
                return Opaque('dynconst', ty=ty)
            return Ref(Cell(self.from_bytes(inner, mem['bytes'], mem['provenance']['ptrs'], 0)), [])
        if isinstance(r, dict) and 'Adt' in r:
            adt = self.p.adt(ty)
            if adt['adt_kind'] in ('struct', 'union'):
                offs = self._layout_offsets(ty)
                fs = []
                for i, f in enumerate(adt['variants'][0]['fields']):
                    sz = self.p.ty(f['ty'])['size']
                    off = offs[i] if offs else 0
                    fs.append(self.from_bytes(f['ty'], bs[off:off + sz], [[p[0] - off, p[1]] for p in ptrs], base))
                return Agg(fs)
            if adt['adt_kind'] == 'enum':
                return self._enum_from_bytes(ty, adt, bs, ptrs, base)
        if isinstance(r, dict) and 'Tuple' in r:
            offs = self._layout_offsets(ty)
            fs = []
            for i, t in enumerate(r['Tuple']):
                sz = self.p.ty(t)['size']
                off = offs[i] if offs else 0
                fs.append(self.from_bytes(t, bs[off:off + sz], [[p[0] - off, p[1]] for p in ptrs], base))
            return Agg(fs)
        if isinstance(r, dict) and 'Array' in r:
            et = r['Array'][0]
            sz = self.p.ty(et)['size']
            if not sz:
                return Agg([])
            return Agg([self.from_bytes(et, bs[i:i + sz], [[p[0] - i, p[1]] for p in ptrs], base) for i in range(0, size, sz)])
        return Opaque('bytes', ty=ty, bytes=bs)

    def _enum_from_bytes(self, ty, adt, bs, ptrs, base):
        lv = self.p.ty(ty).get('layout_variants')
        if isinstance(lv, dict) and 'Single' in lv:
            vi = lv['Single']['index']
            return self._variant_from_bytes(ty, adt, vi, bs, ptrs, base, lv)
        if isinstance(lv, dict) and 'Multiple' in lv:
            m = lv['Multiple']
            enc = m['tag_encoding']
            tag_field = m['tag_field']
            offs = self._layout_offsets(ty)
            toff = offs[tag_field] if offs else 0
            tsz = self._tag_size(m['tag'])
            raw = bs[toff:toff + tsz]
            if any(p[0] == toff for p in ptrs):
                tagv = None   # pointer in tag position: niche is non-null -> dataful variant
            else:
                tagv = int.from_bytes(bytes(b or 0 for b in raw), 'little')
            if enc == 'Direct':
                for vi, v in enumerate(adt['variants']):
                    if int(v['discr']) % (1 << (8 * tsz)) == tagv:
                        return self._variant_from_bytes(ty, adt, vi, bs, ptrs, base, lv)
                raise Unsupported('enum const: no variant for tag %r' % tagv)
            if isinstance(enc, dict) and 'Niche' in enc:
                n = enc['Niche']
                unt = n['untagged_variant']
                lo, hi = n['niche_variants']['start'], n['niche_variants']['end']
                ns = int(n['niche_start'])
                if tagv is not None:
                    rel = (tagv - ns) % (1 << (8 * tsz))
                    if rel <= hi - lo:
                        return self._variant_from_bytes(ty, adt, lo + rel, bs, ptrs, base, lv)
                return self._variant_from_bytes(ty, adt, unt, bs, ptrs, base, lv)
        raise Unsupported('enum const layout %r' % (lv,))

    def _tag_size(self, tag):
        # Scalar::Initialized{value: Int{length,..}|Pointer..}
        try:
            v = tag['Initialized']['value']
            if 'Int' in v:
                return {'I8': 1, 'I16': 2, 'I32': 4, 'I64': 8, 'I128': 16}[v['Int']['length']]
            return 8
        except Exception:
            raise Unsupported('tag scalar %r' % (tag,))

    def _variant_from_bytes(self, ty, adt, vi, bs, ptrs, base, lv):
        v = adt['variants'][vi]
        if not v['fields']:
            return EnumV(vi, [])
        offs = None
        if isinstance(lv, dict) and 'Multiple' in lv:
            vl = lv['Multiple']['variants'][vi]
            try:
                offs = [o['num_bits'] // 8 for o in vl['fields']['Arbitrary']['offsets']]
            except Exception:
                offs = None
        else:
            offs = self._layout_offsets(ty)
        fs = []
        for i, f in enumerate(v['fields']):
            sz = self.p.ty(f['ty'])['size']
            off = offs[i] if offs else 0
            fs.append(self.from_bytes(f['ty'], bs[off:off + sz], [[p[0] - off, p[1]] for p in ptrs], base))
        return EnumV(vi, fs)

    # ---------------------------------------------------------------- operands / rvalues
    def operand(self, fr, fn, op):
        if 'Constant' in op:
            return self.const(op['Constant'])
        if 'RuntimeChecks' in op:
            return z3.BoolVal(False)
        pl = op.get('Copy') or op.get('Move')
        cell, path, sp = self.resolve(fr, pl)
        v = self.read(cell, path, sp)
        if v is None:
            if not pl['projection'] and self.p.ty(fn['body']['locals'][pl['local']]['ty']).get('size') == 0:
                return Agg([])
            raise Unsupported('read of uninitialised local _%d' % pl['local'])
        return self.clone(v)

    def place_ty(self, fn, place):
        ty = fn['body']['locals'][place['local']]['ty']
        for pe in place['projection']:
            if pe == 'Deref':
                r = self.p.tk(ty)
                if 'Ref' in r:
                    ty = r['Ref'][1]
                elif 'RawPtr' in r:
                    ty = r['RawPtr'][0]
                elif 'Adt' in r and self.p.adt(ty)['is_box']:
                    # Box<T>: first generic arg
                    ty = [a['Type'] for a in r['Adt'][1] if 'Type' in a][0]
                else:
                    raise Unsupported('deref type %r' % (r,))
            elif isinstance(pe, dict) and 'Field' in pe:
                ty = pe['Field'][1]
            elif isinstance(pe, dict) and ('Index' in pe or 'ConstantIndex' in pe):
                r = self.p.tk(ty)
                ty = r['Array'][0] if 'Array' in r else r['Slice']
        return ty

    def operand_ty(self, fn, op):
        if 'Constant' in op:
            return op['Constant']['const_']['ty']
        if 'RuntimeChecks' in op:
            return None
        return self.place_ty(fn, op.get('Copy') or op.get('Move'))

    def enum_discr_value(self, ty, v, w):
        if v is None:
            # discriminant of a never-assigned local: only occurs feeding `assume` in optimised std MIR
            return self.fresh('uninit_discr', w)
        if isinstance(v, CoroV):
            return BV(v.state, w)
        adt = self.p.adt(ty)
        if isinstance(v, SymEnum):
            r = BV(int(adt['variants'][v.alts[-1][1]]['discr']), w)
            for c, d, _ in reversed(v.alts[:-1]):
                r = z3.If(c, BV(int(adt['variants'][d]['discr']), w), r)
            return r
        if isinstance(v, EnumV):
            return BV(int(adt['variants'][v.d]['discr']), w)
        raise Unsupported('discriminant of %r' % (v,))

    def array_len(self, ty):
        n = self.p.tk(ty)['Array'][1]
        k = n['kind']
        if isinstance(k, dict) and 'Value' in k:
            return int.from_bytes(bytes(k['Value'][1]['bytes']), 'little')
        raise Unsupported('array length %r' % (k,))

    def rvalue(self, fr, fn, rv, dest_ty):
        if 'Use' in rv:
            u = rv['Use']
            return self.operand(fr, fn, u[0] if isinstance(u, list) else u)
        if 'Ref' in rv or 'AddressOf' in rv:
            pl = (rv.get('Ref') or rv.get('AddressOf'))[-1]
            cell, path, sp = self.resolve(fr, pl)
            if sp is not None:
                if not path:
                    return sp
                if len(path) == 1 and isinstance(path[0], tuple) and path[0][0] == 'ix':
                    return Ref(Cell(VecV(sp.lst)), [('ix', sp.start + path[0][1])])
                raise Unsupported('ref into slice element field')
            # reference to an unsized place (slice behind a Vec etc.)
            v = self.read(cell, path)
            if isinstance(v, SliceRef):
                return v
            return Ref(cell, path)
        if 'Aggregate' in rv:
            kind, ops = rv['Aggregate']
            vals = [self.operand(fr, fn, o) for o in ops]
            if isinstance(kind, dict) and 'Coroutine' in kind:
                return CoroV(dest_ty, vals)
            if isinstance(kind, dict) and 'Adt' in kind:
                variant = kind['Adt'][1]
                adt = self.p.adt(dest_ty)
                if adt['adt_kind'] == 'enum':
                    return EnumV(variant, vals)
                if adt['adt_kind'] == 'union':
                    raise Unsupported('union aggregate')
                return Agg(vals)
            if isinstance(kind, dict) and 'RawPtr' in kind:
                return vals[0]
            return Agg(vals)
        if 'Repeat' in rv:
            v = self.operand(fr, fn, rv['Repeat'][0])
            n = self.array_len(dest_ty)
            return Agg([self.clone(v) for _ in range(n)])
        if 'Discriminant' in rv:
            cell, path, sp = self.resolve(fr, rv['Discriminant'])
            v = self.read(cell, path, sp)
            w = self.p.int_info(dest_ty)[0]
            return self.enum_discr_value(self.place_ty(fn, rv['Discriminant']), v, w)
        if 'Cast' in rv:
            return self.cast(fr, fn, rv['Cast'], dest_ty)
        if 'BinaryOp' in rv or 'CheckedBinaryOp' in rv:
            checked = 'CheckedBinaryOp' in rv
            op, a, b = rv.get('BinaryOp') or rv.get('CheckedBinaryOp')
            return self.binop(fr, fn, op, a, b, checked)
        if 'UnaryOp' in rv:
            op, a = rv['UnaryOp']
            x = self.operand(fr, fn, a)
            if op == 'Not':
                return z3.Not(x) if z3.is_bool(x) else ~x
            if op == 'Neg':
                if self.p.is_float(self.operand_ty(fn, a)):
                    if self.models.FLOAT['mode'] == 'err':
                        r = self.models.float_err_unop(self, 'neg', x)
                        if r is not None:
                            return r
                    return x ^ BV(1 << (x.size() - 1), x.size())
                return -x
            if op == 'PtrMetadata':
                if isinstance(x, SliceRef):
                    return slice_len(x)
                return UNIT
            raise Unsupported('unop %s' % op)
        if 'Len' in rv:
            cell, path, sp = self.resolve(fr, rv['Len'])
            v = self.read(cell, path, sp)
            if isinstance(v, SliceRef):
                return slice_len(v)
            if isinstance(v, VecV):
                return BV(len(v.lst), 64) if v.tail is None else BV(len(v.lst), 64) + v.tail
            return BV(len(v.f), 64)
        if 'CopyForDeref' in rv:
            cell, path, sp = self.resolve(fr, rv['CopyForDeref'])
            return self.read(cell, path, sp)
        if 'NullaryOp' in rv:
            raise Unsupported('nullary op %r' % (rv['NullaryOp'],))
        if 'ShallowInitBox' in rv:
            raise Unsupported('ShallowInitBox')
        raise Unsupported('rvalue %r' % (list(rv.keys()),))

    def cast(self, fr, fn, c, dest_ty):
        ck, op, ty = c
        v = self.operand(fr, fn, op)
        if ck == 'IntToInt':
            sty = self.operand_ty(fn, op)
            si = self.p.int_info(sty)
            dw, _ = self.p.int_info(ty)
            if si is None:
                # field-less enum cast to integer
                if self.p.is_enum(sty):
                    tagw = self.p.ty(sty)['size'] * 8 or 8
                    x = self.enum_discr_value(sty, v, max(tagw, 8))
                    signed = any(int(vv['discr']) < 0 for vv in self.p.adt(sty)['variants'])
                    sw = x.size()
                    if dw == sw:
                        return x
                    if dw < sw:
                        return z3.Extract(dw - 1, 0, x)
                    return z3.SignExt(dw - sw, x) if signed else z3.ZeroExt(dw - sw, x)
                raise Unsupported('IntToInt from %s' % self.p.ty_str(sty))
            sw, ssigned = si
            if sw == 'bool':
                v = bool_to_bv(v, 8)
                sw = 8
            if dw == 'bool':
                raise Unsupported('int to bool cast')
            if dw == sw:
                return v
            if dw < sw:
                return z3.Extract(dw - 1, 0, v)
            return z3.SignExt(dw - sw, v) if ssigned else z3.ZeroExt(dw - sw, v)
        if ck in ('FloatToInt', 'IntToFloat', 'FloatToFloat'):
            return self.models.float_cast(self, ck, v, self.operand_ty(fn, op), ty)
        if isinstance(ck, dict) and 'PointerCoercion' in ck:
            pc = ck['PointerCoercion']
            if pc == 'Unsize':
                if isinstance(v, Ref):
                    tgt = self.read(v.cell, v.path)
                    if isinstance(tgt, Agg) and self._is_array_ref(self.operand_ty(fn, op)):
                        return SliceRef(tgt.f, 0, len(tgt.f))
                if isinstance(v, Agg) and len(v.f) >= 1 and isinstance(v.f[0], Ref):
                    return v   # Box<T> -> Box<dyn Trait>
                return v
            if pc == 'ReifyFnPointer' or (isinstance(pc, dict) and 'ReifyFnPointer' in pc):
                fty = self.operand_ty(fn, op)
                info = fn.get('reified', {}).get(json.dumps(fty))
                if info is None:
                    raise Unsupported('reify unknown fn')
                return FnPtr(info['key'])
            if isinstance(pc, dict) and 'ClosureFnPointer' in pc:
                fty = self.operand_ty(fn, op)
                info = fn.get('reified', {}).get(json.dumps(fty))
                if info is None:
                    raise Unsupported('closure fn pointer')
                return FnPtr(info['key'])
            return v
        if ck in ('PtrToPtr', 'Transmute', 'Subtype', 'FnPtrToPtr'):
            if ck == 'Transmute':
                return self.models.transmute(self, v, self.operand_ty(fn, op), ty)
            return v
        raise Unsupported('cast %r' % (ck,))

    def _is_array_ref(self, ty):
        r = self.p.tk(ty)
        if isinstance(r, dict) and ('Ref' in r or 'RawPtr' in r):
            inner = r['Ref'][1] if 'Ref' in r else r['RawPtr'][0]
            ir = self.p.tk(inner)
            return isinstance(ir, dict) and 'Array' in ir
        return False

    def binop(self, fr, fn, op, a, b, checked):
        ta = self.operand_ty(fn, a)
        ii = self.p.int_info(ta)
        x = self.operand(fr, fn, a)
        y = self.operand(fr, fn, b)
        if ii is None:
            if self.p.is_enum(ta) or isinstance(x, (EnumV, SymEnum)):
                w = 64
                x = self.enum_discr_value(ta, x, w)
                y = self.enum_discr_value(ta, y, w)
                ii = (w, True)
            elif op in ('Eq', 'Ne') and isinstance(x, (Ref, SliceRef, Opaque)):
                raise Unsupported('pointer comparison')
            elif op == 'Offset':
                raise Unsupported('pointer offset')
            else:
                raise Unsupported('binop %s on %s' % (op, self.p.ty_str(ta)))
        if self.p.is_float(ta):
            return self.models.float_binop(self, op, x, y)
        signed = ii[1]
        if ii[0] == 'bool':
            table = {'Eq': lambda: x == y, 'Ne': lambda: x != y, 'BitAnd': lambda: z3.And(x, y), 'BitOr': lambda: z3.Or(x, y),
                     'BitXor': lambda: z3.Xor(x, y), 'Lt': lambda: z3.And(z3.Not(x), y), 'Le': lambda: z3.Or(z3.Not(x), y),
                     'Gt': lambda: z3.And(x, z3.Not(y)), 'Ge': lambda: z3.Or(x, z3.Not(y))}
            return simp(table[op]())
        w = ii[0]
        if op in ('Shl', 'Shr', 'ShlUnchecked', 'ShrUnchecked'):
            ysz = y.size()
            yov = None
            if checked or True:
                # Rust: overflow if shift amount >= width (checked in debug builds via Assert on separate Lt)
                pass
            if ysz != w:
                y = z3.ZeroExt(w - ysz, y) if ysz < w else z3.Extract(w - 1, 0, y)
            # MIR Shl/Shr mask the shift amount (wrapping); the overflow Assert is separate
            y = y & BV(w - 1, w)
        if op in ('Add', 'AddUnchecked', 'AddWithOverflow'):
            r = x + y
        elif op in ('Sub', 'SubUnchecked', 'SubWithOverflow'):
            r = x - y
        elif op in ('Mul', 'MulUnchecked', 'MulWithOverflow'):
            r = x * y
        elif op == 'BitAnd':
            r = x & y
        elif op == 'BitOr':
            r = x | y
        elif op == 'BitXor':
            r = x ^ y
        elif op in ('Shl', 'ShlUnchecked'):
            r = x << y
        elif op in ('Shr', 'ShrUnchecked'):
            r = (x >> y) if signed else z3.LShR(x, y)
        elif op == 'Div':
            r = (x / y) if signed else z3.UDiv(x, y)
        elif op == 'Rem':
            r = z3.SRem(x, y) if signed else z3.URem(x, y)
        elif op == 'Eq':
            return simp(x == y)
        elif op == 'Ne':
            return simp(x != y)
        elif op == 'Lt':
            return simp((x < y) if signed else z3.ULT(x, y))
        elif op == 'Le':
            return simp((x <= y) if signed else z3.ULE(x, y))
        elif op == 'Gt':
            return simp((x > y) if signed else z3.UGT(x, y))
        elif op == 'Ge':
            return simp((x >= y) if signed else z3.UGE(x, y))
        elif op == 'Cmp':
            lt = (x < y) if signed else z3.ULT(x, y)
            return SymEnum([(simp(lt), 0, []), (simp(x == y), 1, []), (simp(z3.And(z3.Not(lt), x != y)), 2, [])])
        else:
            raise Unsupported('binop %s' % op)
        r = simp(r)
        if not (checked or op.endswith('WithOverflow')):
            return r
        base = op.replace('WithOverflow', '')
        if base == 'Add':
            ov = z3.Not(z3.BVAddNoOverflow(x, y, signed)) if not signed else z3.Or(z3.Not(z3.BVAddNoOverflow(x, y, True)), z3.Not(z3.BVAddNoUnderflow(x, y)))
        elif base == 'Sub':
            ov = z3.Not(z3.BVSubNoUnderflow(x, y, signed)) if not signed else z3.Or(z3.Not(z3.BVSubNoOverflow(x, y)), z3.Not(z3.BVSubNoUnderflow(x, y, True)))
        elif base == 'Mul':
            ov = z3.Not(z3.BVMulNoOverflow(x, y, signed)) if not signed else z3.Or(z3.Not(z3.BVMulNoOverflow(x, y, True)), z3.Not(z3.BVMulNoUnderflow(x, y)))
        else:
            ov = z3.BoolVal(False)
        return Agg([r, simp(ov)])

    # ---------------------------------------------------------------- body execution
    def exec_body(self, fn, args):
        body = fn['body']
        P = self.path
        fr = [Cell(None) for _ in body['locals']]
        nargs = fn['arg_count']
        if len(args) != nargs:
            # rust-call ABI: closure called with (self, (a, b, ...)) -> untuple
            if len(args) == 2 and isinstance(args[1], Agg) and nargs == 1 + len(args[1].f):
                args = [args[0]] + list(args[1].f)
            elif len(args) == 2 and isinstance(args[1], Agg) and not args[1].f and nargs == 1:
                args = [args[0]]
            else:
                raise Unsupported('arity mismatch calling %s: %d vs %d' % (fn['name'], len(args), nargs))
        for i, a in enumerate(args):
            fr[1 + i].val = a
        if body['locals'] and self._is_unit(body['locals'][0]['ty']):
            fr[0].val = UNIT
        blocks = body['blocks']
        bb = 0
        while True:
            P.steps += 1
            self.stats['steps'] += 1
            if P.steps > self.max_steps:
                raise Unsupported('step budget in %s' % fn['name'])
            blk = blocks[bb]
            try:
                for s in blk['statements']:
                    k = s['kind']
                    if isinstance(k, dict):
                        if 'Assign' in k:
                            pl, rv = k['Assign']
                            val = self.rvalue(fr, fn, rv, self.place_ty(fn, pl))
                            cell, path, sp = self.resolve(fr, pl)
                            self.write(cell, path, val, sp)
                        elif 'SetDiscriminant' in k:
                            sd = k['SetDiscriminant']
                            cell, path, sp = self.resolve(fr, sd['place'])
                            v = self.read(cell, path, sp)
                            if isinstance(v, CoroV):
                                v.state = sd['variant_index']
                            elif v is None or isinstance(v, EnumV):
                                self.write(cell, path, EnumV(sd['variant_index'], v.f if isinstance(v, EnumV) and v.d == sd['variant_index'] else []), sp)
                            else:
                                raise Unsupported('SetDiscriminant on %r' % (v,))
                        elif 'Intrinsic' in k:
                            pass   # assume / copy_nonoverlapping: only reached inside stopped std code
                t = blk['terminator']['kind']
                if t == 'Return':
                    if fr[0].val is None and self.p.ty(body['locals'][0]['ty']).get('size') == 0:
                        return Agg([])      # zero-sized return value is never written explicitly
                    return fr[0].val
                if t == 'Unreachable':
                    raise PathEnd('unreachable', fn['name'])
                if t == 'Resume' or t == 'Abort':
                    raise PathEnd('panic', 'unwind')
                if 'Goto' in t:
                    bb = t['Goto']['target']
                elif 'Drop' in t:
                    bb = t['Drop']['target']
                elif 'SwitchInt' in t:
                    bb = self.switch(fr, fn, t['SwitchInt'])
                elif 'Assert' in t:
                    a = t['Assert']
                    c = self.operand(fr, fn, a['cond'])
                    want = a['expected']
                    good = c if want else z3.Not(c)
                    if not self.branch(good):
                        msg = list(a['msg'].keys())[0] if isinstance(a['msg'], dict) else str(a['msg'])
                        raise PathEnd('panic', 'assert:%s in %s' % (msg, fn['name']))
                    bb = a['target']
                elif 'Call' in t:
                    c = t['Call']
                    val = self.do_call(fr, fn, bb, c)
                    cell, path, sp = self.resolve(fr, c['destination'])
                    self.write(cell, path, val, sp)
                    if c['target'] is None:
                        raise PathEnd('diverged', fn['name'])
                    bb = c['target']
                else:
                    raise Unsupported('terminator %r' % (t,))
            except Unsupported as e:
                if ' @' not in str(e):
                    raise Unsupported('%s @%s bb%d' % (e, fn['name'], bb))
                raise
            except PathEnd as e:
                if e.status in ('panic', 'alloc', 'unreachable') and ' in ' not in e.detail:
                    e.detail = '%s in %s' % (e.detail, fn['name'])
                    e.args = (e.status + ':' + e.detail,)
                raise

    def _is_unit(self, ty):
        r = self.p.tk(ty)
        return isinstance(r, dict) and 'Tuple' in r and not r['Tuple']

    def switch(self, fr, fn, sw):
        d = self.operand(fr, fn, sw['discr'])
        tg = sw['targets']
        if z3.is_bool(d):
            d = bool_to_bv(d, 8) if not is_val(d) else BV(1 if z3.is_true(d) else 0, 8)
        c = concrete(d)
        if c is not None:
            for v, b in tg['branches']:
                if v == c:
                    return b
            return tg['otherwise']
        d = simp(d)
        dm = self.diamond(fn, sw)
        if dm is not None:
            # if-conversion: several targets only assign a constant to the same local and rejoin -> one merged alternative
            local, join, consts, others = dm
            gconds = []
            val = None
            for v, cst in consts:
                cond = (d == BV(v, d.size())) if v is not None else None
                gconds.append((cond, cst))
            explicit = [c for c, _ in gconds if c is not None]
            alts = []
            # 'otherwise' belongs to the group when its block is simple too
            other_conds = [d == BV(v, d.size()) for v, _ in others if v is not None]
            if any(c is None for c, _ in gconds):
                group = z3.Not(z3.Or(*other_conds)) if other_conds else z3.BoolVal(True)
            else:
                group = z3.Or(*explicit) if len(explicit) > 1 else explicit[0]
            alts.append(group)
            targets = [None]
            for v, b in others:
                if v is not None:
                    alts.append(d == BV(v, d.size()))
                else:
                    alts.append(z3.Not(z3.Or(*(explicit + other_conds))) if (explicit + other_conds) else z3.BoolVal(True))
                targets.append(b)
            i = self.choose(alts) if len(alts) > 1 else 0
            if i == 0:
                default = [cst for c, cst in gconds if c is None]
                val = self.const(default[0]) if default else self.const(gconds[-1][1])
                for c, cst in reversed([g for g in gconds if g[0] is not None][:None if default else -1]):
                    val = z3.If(c, self.const(cst), val)
                fr[local].val = val
                return join
            return targets[i]
        ck = (id(sw), d.get_id())
        ent = self.switch_cache.get(ck)
        if ent is None:
            alts = []
            neg = []
            targets = []
            for v, b in tg['branches']:
                cond = d == BV(v, d.size())
                alts.append(cond)
                neg.append(d != BV(v, d.size()))
                targets.append(b)
            alts.append(z3.And(*neg) if len(neg) > 1 else neg[0])
            targets.append(tg['otherwise'])
            fv = d if (z3.is_const(d) and d.decl().kind() == z3.Z3_OP_UNINTERPRETED and len(set(v for v, _ in tg['branches'])) == len(tg['branches'])) else None
            ent = (alts, targets, fv, d)   # d kept alive so its ast id is not reused
            if len(alts) > 8:
                self.switch_cache[ck] = ent
        alts, targets, fv, _ = ent
        i = self.choose(alts, fv)
        return targets[i]

    def diamond(self, fn, sw):
        """analysis (cached): which switch targets are 'assign a scalar constant to local L; goto J' blocks"""
        cache = fn.setdefault('_diamonds', {})
        k = id(sw)
        if k in cache:
            return cache[k]
        blocks = fn['body']['blocks']
        tg = sw['targets']
        ents = [(v, b) for v, b in tg['branches']] + [(None, tg['otherwise'])]
        simple = {}
        for v, b in ents:
            if b in simple:
                continue
            blk = blocks[b]
            t = blk['terminator']['kind']
            ok = isinstance(t, dict) and 'Goto' in t
            asg = None
            if ok:
                for st in blk['statements']:
                    kk = st['kind']
                    if isinstance(kk, dict) and 'Assign' in kk:
                        pl, rv = kk['Assign']
                        if asg is not None or pl['projection'] or 'Use' not in rv:
                            ok = False
                            break
                        u = rv['Use']
                        u = u[0] if isinstance(u, list) else u
                        if 'Constant' not in u or not self.p.int_info(u['Constant']['const_']['ty']):
                            ok = False
                            break
                        asg = (pl['local'], u['Constant'])
                    elif isinstance(kk, dict) and ('StorageLive' in kk or 'StorageDead' in kk):
                        continue
                    elif kk == 'Nop':
                        continue
                    else:
                        ok = False
                        break
            simple[b] = (asg[0], t['Goto']['target'], asg[1]) if ok and asg else None
        groups = {}
        for v, b in ents:
            if simple[b]:
                groups.setdefault((simple[b][0], simple[b][1]), []).append((v, simple[b][2]))
        res = None
        best = max(groups.items(), key=lambda kv: len(kv[1])) if groups else None
        if best and len(best[1]) >= 2 and len(set(id(b) for b in ents)) >= 2:
            (local, join), consts = best
            inb = set()
            for v, b in ents:
                if simple[b] and (simple[b][0], simple[b][1]) == (local, join):
                    inb.add((v, b))
            others = [(v, b) for v, b in ents if (v, b) not in inb]
            res = (local, join, consts, others)
        cache[k] = res
        return res

    def do_call(self, fr, fn, bb, c):
        info = fn['calls'].get(str(bb))
        args = [self.operand(fr, fn, a) for a in c['args']]
        if info is None:
            # indirect call through a fn pointer / closure value
            f = self.operand(fr, fn, c['func'])
            if isinstance(f, FnPtr):
                return self.call(f.key, args)
            raise Unsupported('indirect call')
        callee = self.p.fn(info['key'])
        self.fns_reached.add(callee['name'])
        if self.stubs:
            nm = callee.get('_bare')
            if nm is None:
                from .inventory import strip_turbofish
                nm = strip_turbofish(callee['name'])
                callee['_bare'] = nm
            for pat, stub in self.stubs:
                if nm.endswith(pat):
                    return stub(self, callee, args)
        if callee['body'] is None:
            if callee['kind'] == 'virtual':
                return self.models.virtual_call(self, info, callee, args)
            return self.models.call_model(self, callee, args, self.place_ty(fn, c['destination']))
        if self.merge_calls and self.is_pure_sig(callee):
            r = self.pure_call(callee, info['key'], args)
            if r is not None:
                return r
        return self.exec_body(callee, args)
