"""Reader and symbolic interpreter for the C fragments the generator emits for the Wireshark dissectors
(wow_message_parser/tests/wireshark/parser.txt): switch/case, if / else-if / else, for, while, ptvcursor_add*,
add_* helpers, len bookkeeping. The interpreter walks a canonical encoding (z3 bytes + constraints, vf/encode.py):
integers read with ptvcursor_add_ret_uint are z3 terms, conditions and loop bounds are decided by solver implication
under the encoding's constraints."""
import re
import z3
from . import wowm, encode

TOK = re.compile(r'\s+|/\*.*?\*/|(?P<id>[A-Za-z_][A-Za-z0-9_]*)|(?P<num>0x[0-9a-fA-F]+|\d+)|(?P<str>"[^"]*")|(?P<op>==|!=|\|\||&&|\+\+|->|<=|>=|[{}();,<>=&*\-+.:])', re.S)


class DissectorError(Exception):
    """the fragment and the definition disagree"""


class Unsupported(Exception):
    pass


def lex(s):
    out = []
    i = 0
    while i < len(s):
        m = TOK.match(s, i)
        if not m:
            raise Unsupported('lex error at %r' % s[i:i + 30])
        if m.lastgroup:
            out.append(m.group(m.lastgroup))
        i = m.end()
    return out


class P:
    def __init__(self, toks):
        self.t = toks
        self.i = 0

    def peek(self, k=0):
        return self.t[self.i + k] if self.i + k < len(self.t) else None

    def eat(self, v=None):
        t = self.peek()
        if t is None or (v is not None and t != v):
            raise Unsupported('expected %r at %r' % (v, self.t[self.i:self.i + 8]))
        self.i += 1
        return t

    def until_paren(self):
        """tokens of a parenthesised expression; the opening '(' has been eaten"""
        depth = 1
        out = []
        while True:
            t = self.eat()
            if t == '(':
                depth += 1
            elif t == ')':
                depth -= 1
                if depth == 0:
                    return out
            out.append(t)

    def block(self):
        self.eat('{')
        out = self.stmts()
        self.eat('}')
        return out

    def stmts(self):
        out = []
        while self.peek() is not None and self.peek() not in ('}', 'case', 'default'):
            out.append(self.stmt())
        return out

    def stmt(self):
        t = self.peek()
        if t == 'if':
            self.eat()
            self.eat('(')
            branches = [(self.until_paren(), self.block())]
            els = None
            while self.peek() == 'else':
                self.eat()
                if self.peek() == 'if':
                    self.eat()
                    self.eat('(')
                    c = self.until_paren()
                    branches.append((c, self.block()))
                else:
                    els = self.block()
            return ('if', branches, els)
        if t == 'for':
            self.eat()
            self.eat('(')
            h = self.until_paren()
            return ('for', h, self.block())
        if t == 'while':
            self.eat()
            self.eat('(')
            h = self.until_paren()
            return ('while', h, self.block())
        if t == 'switch':
            self.eat()
            self.eat('(')
            h = self.until_paren()
            self.eat('{')
            cases = []
            while self.peek() in ('case', 'default'):
                labels = []
                while self.peek() in ('case', 'default'):
                    if self.eat() == 'case':
                        labels.append(self.eat())
                    else:
                        labels.append('default')
                    self.eat(':')
                cases.append((labels, self.stmts()))
            self.eat('}')
            return ('switch', h, cases)
        if t == 'break':
            self.eat()
            self.eat(';')
            return ('break',)
        # expression statement up to ';'
        out = []
        while self.peek() != ';':
            out.append(self.eat())
        self.eat(';')
        return ('expr', out)


def parse_fragment(text):
    p = P(lex(text))
    out = []
    while p.peek() is not None:
        out.append(p.stmt())
    return out


def parse_enums(text):
    vals = {}
    for m in re.finditer(r'^\s*([A-Z][A-Z0-9_]*)\s*=\s*(0x[0-9a-fA-F]+|-?\d+)\s*,', text, re.M):
        vals[m.group(1)] = int(m.group(2), 0)
    return vals


class Break(Exception):
    pass


HELPERS = {'add_cstring': ('CString',), 'add_sized_cstring': ('SizedCString',), 'add_string': ('String',), 'add_packed_guid': ('PackedGuid',),
           'add_aura_mask': ('AuraMask',), 'add_monster_move_spline': ('MonsterMoveSplines',), 'add_update_mask': ('UpdateMask',)}


class Walker:
    def __init__(self, enc, corpus, view, enums, to_client, protocol=None):
        self.e = enc
        self.n = len(enc.bytes)
        self.pos = 0
        self.vars = {}
        self.enums = enums
        self.to_client = to_client
        self.protocol = protocol
        self.sol = z3.Solver()
        self.sol.add(*enc.cons)
        self.trace = []
        self.leaves = {}
        self.arrays = {}
        for (p, ty, a, b, term) in enc.fields:
            if '[' in ty:
                self.arrays.setdefault(a, []).append((p, ty, a, b))
                continue
            if view['containers'].get(ty) is not None and view['definers'].get(ty) is None:
                continue
            self.leaves.setdefault(a, []).append((p, ty, a, b))
        self.inside = sorted((a, b, p, ty) for lst in self.leaves.values() for (p, ty, a, b) in lst)

    # ---------------------------------------------------------------- solver helpers
    def implied(self, c):
        if isinstance(c, bool):
            return c
        self.sol.push()
        self.sol.add(z3.Not(c))
        r = self.sol.check()
        self.sol.pop()
        if r == z3.unsat:
            return True
        self.sol.push()
        self.sol.add(c)
        r = self.sol.check()
        self.sol.pop()
        if r == z3.unsat:
            return False
        return None

    def concrete(self, term, what):
        if isinstance(term, int):
            return term
        term = z3.simplify(term)
        if z3.is_bv_value(term):
            return term.as_long()
        if self.sol.check() != z3.sat:
            raise Unsupported('encoding constraints unsatisfiable')
        v = self.sol.model().eval(term, model_completion=True)
        if self.implied(term == v) is not True:
            raise DissectorError('%s is not determined by the message shape (the dissector uses a value the definition does not tie to this count/length)' % what)
        return v.as_long()

    # ---------------------------------------------------------------- expressions
    def value(self, tok):
        if re.fullmatch(r'0x[0-9a-fA-F]+|\d+', tok):
            return int(tok, 0)
        if tok == 'len':
            return self.vars.get('len', 0)
        if tok in self.vars:
            return self.vars[tok]
        if tok in self.enums:
            return self.enums[tok]
        raise DissectorError('identifier %s is neither a variable read earlier in this message nor a declared enumerator' % tok)

    def atom(self, toks):
        if len(toks) == 1:
            if toks[0] in ('WOW_SERVER_TO_CLIENT', 'WOWW_SERVER_TO_CLIENT'):
                return self.to_client
            raise Unsupported('condition %s' % toks)
        if 'compressed_tvb' in toks:
            raise Unsupported('compressed payload')
        if len(toks) != 3:
            raise Unsupported('condition %s' % ' '.join(toks))
        a, op, b = toks
        x, y = self.value(a), self.value(b)
        if isinstance(x, int) and isinstance(y, int):
            return {'==': x == y, '!=': x != y, '&': (x & y) != 0, '>': x > y, '<': x < y}[op]
        if isinstance(x, int):
            x = z3.BitVecVal(x, y.size())
        if isinstance(y, int):
            y = z3.BitVecVal(y, x.size())
        if op == '==':
            return x == y
        if op == '!=':
            return x != y
        if op == '&':
            return (x & y) != 0
        if op == '>':
            return z3.UGT(x, y)
        if op == '<':
            return z3.ULT(x, y)
        raise Unsupported('operator %s' % op)

    def cond(self, toks):
        parts = [[]]
        for t in toks:
            if t == '||':
                parts.append([])
            elif t == '&&':
                raise Unsupported('&& in condition')
            else:
                parts[-1].append(t)
        vals = [self.atom(p) for p in parts]
        if any(v is True for v in vals):
            return True
        vals = [v for v in vals if v is not False]
        if not vals:
            return False
        return z3.Or(*vals) if len(vals) > 1 else vals[0]

    # ---------------------------------------------------------------- consumption
    def where(self):
        for a, b, p, ty in self.inside:
            if a <= self.pos < b:
                return '%s (%s, bytes %d..%d)' % (p, ty, a, b)
        return 'offset %d' % self.pos

    def take(self, n, enc, hf):
        if self.pos + n > self.n:
            raise DissectorError('reads %d bytes for %s at offset %d but the body ends at %d' % (n, hf, self.pos, self.n))
        cands = self.leaves.get(self.pos, [])
        ok = None
        for (p, ty, a, b) in cands:
            if b - a == n:
                ok = (p, ty)
        if ok is None:
            for (p, ty, a, b) in self.arrays.get(self.pos, []):
                if b - a == n and wowm.int_type_info(encode.ALIASES.get(ty.split('[')[0], ty.split('[')[0])) in ((1, False, False), (1, True, False)):
                    ok = (p, ty)
        if ok is None:
            if cands:
                p, ty, a, b = cands[0]
                raise DissectorError('reads %d bytes for %s where field %s (%s) has %d' % (n, hf, p, ty, b - a))
            if n == 0 and not cands:
                self.trace.append((hf, self.pos, 0))
                return []
            raise DissectorError('reads %d bytes for %s at offset %d, which is not the start of a field: inside %s' % (n, hf, self.pos, self.where()))
        p, ty = ok
        base = encode.ALIASES.get(ty, ty)
        ii = wowm.int_type_info(base)
        be = bool(ii and ii[2])
        if n > 1 and '[' not in ty:
            if enc == 'ENC_BIG_ENDIAN' and not be:
                raise DissectorError('field %s (%s) is little endian, the dissector reads it as ENC_BIG_ENDIAN' % (p, ty))
            if enc == 'ENC_LITTLE_ENDIAN' and be:
                raise DissectorError('field %s (%s) is big endian, the dissector reads it as ENC_LITTLE_ENDIAN' % (p, ty))
        bs = self.e.bytes[self.pos:self.pos + n]
        self.trace.append((hf, self.pos, n))
        self.pos += n
        return bs

    def helper(self, name, hf):
        kinds = HELPERS[name]
        for (p, ty, a, b) in self.leaves.get(self.pos, []):
            if ty in kinds:
                self.trace.append((hf or name, self.pos, b - a))
                self.pos = b
                return
        if self.pos >= self.n:
            raise DissectorError('%s at offset %d but the body ends at %d' % (name, self.pos, self.n))
        raise DissectorError('%s at offset %d where the definition has %s' % (name, self.pos, self.where()))

    # ---------------------------------------------------------------- statements
    def run(self, stmts):
        for s in stmts:
            self.exec(s)

    def exec(self, s):
        k = s[0]
        if k == 'break':
            raise Break()
        if k == 'expr':
            return self.expr(s[1])
        if k == 'if':
            for c, body in s[1]:
                v = self.cond(c)
                d = self.implied(v)
                if d is None:
                    raise DissectorError('condition (%s) is neither implied nor excluded by the branch the message takes: the dissector branches differently from the definition' % ' '.join(c))
                if d:
                    return self.run(body)
            if s[2] is not None:
                self.run(s[2])
            return
        if k == 'for':
            h = s[1]
            # guint32 i1 = 0 ; i1 < X ; ++ i1
            try:
                lt = h.index('<')
                bound = h[lt + 1]
                start = int(h[h.index('=') + 1], 0)
            except Exception:
                raise Unsupported('for header %s' % ' '.join(h))
            n = self.concrete(self.value(bound), 'loop bound %s' % bound)
            if n - start > 4096:
                raise DissectorError('loop bound %s evaluates to %d' % (bound, n))
            for _ in range(start, n):
                self.run(s[2])
            return
        if k == 'while':
            h = ' '.join(s[1])
            if 'ptvcursor_current_offset' not in h or 'offset_packet_end' not in h:
                raise Unsupported('while header %s' % h)
            it = 0
            while self.pos < self.n:
                before = self.pos
                self.run(s[2])
                it += 1
                if self.pos == before or it > 4096:
                    raise DissectorError('while loop over the rest of the packet makes no progress at offset %d' % self.pos)
            return
        if k == 'switch':
            h = ' '.join(s[1])
            if 'protocol_version' not in h:
                raise Unsupported('switch on %s' % h)
            for labels, body in s[2]:
                if str(self.protocol) in labels:
                    try:
                        self.run(body)
                    except Break:
                        pass
                    return
            raise DissectorError('no case for protocol version %s' % self.protocol)
        raise Unsupported('statement %s' % k)

    def expr(self, t):
        if not t:
            return
        f = t[0]
        if f == 'ptvcursor_add' or f == 'ptvcursor_add_ret_uint':
            # f ( ptv , hf , N , ENC [, & var] )
            args = []
            cur = []
            for x in t[2:-1]:
                if x == ',':
                    args.append(cur)
                    cur = []
                else:
                    cur.append(x)
            args.append(cur)
            hf = args[1][0]
            ntok = args[2][0]
            n = self.concrete(self.value(ntok), 'length %s' % ntok) if not re.fullmatch(r'\d+', ntok) else int(ntok)
            enc = args[3][0]
            bs = self.take(n, enc, hf)
            if f == 'ptvcursor_add_ret_uint':
                var = args[4][-1]
                if not bs:
                    raise DissectorError('ptvcursor_add_ret_uint of %d bytes' % n)
                order = bs if enc == 'ENC_BIG_ENDIAN' else list(reversed(bs))
                v = z3.Concat(*order) if len(order) > 1 else order[0]
                if v.size() < 32:
                    v = z3.ZeroExt(32 - v.size(), v)
                self.vars[var] = v
            return
        if f in HELPERS:
            hf = next((x for x in t if x.startswith('hf_')), None)
            return self.helper(f, hf)
        if f in ('ptvcursor_add_text_with_subtree', 'ptvcursor_pop_subtree'):
            return
        if f == 'len' and t[1] == '=':
            self.vars['len'] = self.n - self.pos
            return
        raise Unsupported('statement %s' % ' '.join(t[:6]))
