"""Shared plumbing for every check: tiers/seeds, evidence, known findings, verdicts, shell helpers."""
import hashlib
import json
import os
import subprocess
import sys
import time

VERIF = os.path.dirname(os.path.dirname(os.path.abspath(__file__)))
REPO = os.environ.get('VERIF_REPO', '/repo')
WORK = os.environ.get('VERIF_WORK', os.path.join(VERIF, 'work'))
EVIDENCE = os.environ.get('VERIF_EVIDENCE', os.path.join(VERIF, 'evidence'))
REPLAYS = os.environ.get('VERIF_REPLAYS', os.path.join(VERIF, 'replays'))
GUARD = 'gtker_wow_messages_verif'
NCPU = int(os.environ.get('VERIF_JOBS', os.cpu_count() or 4))


def seed():
    try:
        return int(os.environ.get('VERIF_SEED', '0'))
    except ValueError:
        return 0


def log(*a):
    print(*a, flush=True)


def sh(cmd, cwd=None, env=None, timeout=None, check=False, capture=True, stdin=None):
    e = dict(os.environ)
    e['CARGO_NET_OFFLINE'] = 'true'
    if env:
        e.update(env)
    p = subprocess.run(cmd, cwd=cwd, env=e, shell=isinstance(cmd, str), timeout=timeout,
                       stdout=subprocess.PIPE if capture else None,
                       stderr=subprocess.STDOUT if capture else None, input=stdin, text=True)
    if check and p.returncode != 0:
        raise RuntimeError('command failed (%d): %s\n%s' % (p.returncode, cmd, (p.stdout or '')[-4000:]))
    return p


def repo_files(subdirs, exts=('.rs', '.toml', '.lock', '.wowm', '.txt', '.md', '.json')):
    out = []
    for sd in subdirs:
        root = os.path.join(REPO, sd)
        if os.path.isfile(root):
            out.append(root)
            continue
        for dp, dn, fn in os.walk(root):
            dn[:] = [d for d in dn if d not in ('target', '.git')]
            for f in fn:
                if f.endswith(exts):
                    out.append(os.path.join(dp, f))
    out.sort()
    return out


def tree_hash(subdirs, extra=''):
    h = hashlib.sha256()
    h.update(extra.encode())
    for f in repo_files(subdirs):
        h.update(f.encode())
        try:
            st = os.stat(f)
            # content hash: the tree may be edited without mtime discipline
            with open(f, 'rb') as fh:
                h.update(hashlib.sha256(fh.read()).digest())
        except OSError:
            pass
    return h.hexdigest()[:16]


def repo_state():
    try:
        head = sh(['git', '-C', REPO, 'rev-parse', 'HEAD']).stdout.strip()
        dirty = sh(['git', '-C', REPO, 'status', '--porcelain', '--untracked-files=no']).stdout.strip()
        return {'head': head, 'dirty_files': len(dirty.splitlines())}
    except Exception as e:  # pragma: no cover
        return {'error': str(e)}


class Known:
    """known_findings.json: committed, never written at run time."""

    def __init__(self):
        path = os.path.join(VERIF, 'known_findings.json')
        self.entries = []
        if os.path.exists(path):
            self.entries = json.load(open(path)).get('findings', [])

    def match(self, prop, key):
        for e in self.entries:
            if e.get('status') == 'fixed':
                continue   # a fixed entry suppresses nothing
            if e['property'] == prop and e['key'] == key:
                return e
        return None


class Check:
    """One run of one property check. Collects obligations, violations, evidence."""

    def __init__(self, prop, tier, level):
        self.prop = prop
        self.tier = tier
        self.level = level
        self.t0 = time.time()
        self.cov = {'samples': []}
        self.assumptions = []
        self.violations = []       # dicts: key, what, replay (path), confirmed (bool)
        self.inconclusive = []     # strings
        self.known = Known()
        self.known_hits = []
        self.engine_disagreements = []
        self.counters = {}
        os.makedirs(EVIDENCE, exist_ok=True)
        os.makedirs(os.path.join(REPLAYS, prop), exist_ok=True)

    def count(self, k, n=1):
        self.counters[k] = self.counters.get(k, 0) + n

    def sample(self, s, cap=12):
        if len(self.cov['samples']) < cap:
            self.cov['samples'].append(s)

    def assume(self, text):
        if text not in self.assumptions:
            self.assumptions.append(text)

    def replay_path(self, name, payload):
        safe = ''.join(c if c.isalnum() or c in '._-' else '_' for c in name)[:120]
        p = os.path.join(REPLAYS, self.prop, safe + '.json')
        with open(p, 'w') as f:
            json.dump(payload, f, indent=1, default=str)
        return p

    def violation(self, key, what, payload, confirmed=True):
        """key identifies the failing site for known-findings matching."""
        path = self.replay_path(key, dict(payload, property=self.prop, key=key, what=what))
        k = self.known.match(self.prop, key)
        if k is not None:
            self.known_hits.append((key, what))
            return
        if confirmed:
            if any(v['key'] == key for v in self.violations):
                return
            self.violations.append({'key': key, 'what': what, 'replay': path})
        else:
            self.engine_disagreements.append({'key': key, 'what': what, 'replay': path})

    def finish(self, extra_cov=None, fail_on_inconclusive=False):
        wall = time.time() - self.t0
        cov = dict(self.cov)
        cov.update(self.counters)
        if extra_cov:
            cov.update(extra_cov)
        cov['inconclusive'] = self.inconclusive[:200]
        cov['inconclusive_count'] = len(self.inconclusive)
        cov['known_findings_matched'] = [k for k, _ in self.known_hits][:50]
        cov['repo_state'] = repo_state()
        if not cov['samples']:
            cov['samples'] = ['(no case explored)']
        ev = {'property_id': self.prop, 'tier': self.tier, 'seed': seed(), 'level': self.level,
              'coverage': cov, 'assumptions': self.assumptions, 'wall_s': round(wall, 2),
              'violations': len(self.violations)}
        with open(os.path.join(EVIDENCE, self.prop + '.json'), 'w') as f:
            json.dump(ev, f, indent=1, default=str)
        seen = set()
        for key, what in self.known_hits:
            if key in seen:
                continue
            seen.add(key)
            log('KNOWN-FINDING: property=%s %s: %s' % (self.prop, key, what))
        for v in self.violations:
            log('VIOLATION property=%s replay=%s' % (self.prop, v['replay']))
            log('  ' + v['key'] + ': ' + v['what'])
        for d in self.engine_disagreements:
            log('ENGINE-DISAGREEMENT property=%s %s: %s (counterexample did not reproduce natively; %s)' % (self.prop, d['key'], d['what'], d['replay']))
        log('%s %s: wall %.1fs, %d violation(s), %d known, %d inconclusive' % (self.prop, self.tier, wall, len(self.violations), len(seen), len(self.inconclusive)))
        if self.violations:
            return 1
        if self.engine_disagreements:
            return 2
        if fail_on_inconclusive and self.inconclusive:
            log('inconclusive obligations: ' + '; '.join(self.inconclusive[:10]))
            return 2
        return 0
