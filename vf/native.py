"""Native replay runners: small Rust binaries built from the repo's current tree (dev and release)."""
import os
import shutil
from .common import VERIF, REPO, WORK, sh

CRATES = {
    'replay_base': 'wow_world_base = { path = "{REPO}/wow_world_base", features = ["vanilla", "tbc", "wrath", "shared", "extended"] }\n',
}


def build(name, release=False):
    d = os.path.join(WORK, 'native', name)
    os.makedirs(os.path.join(d, 'src'), exist_ok=True)
    toml = '[package]\nname = "%s"\nversion = "0.0.0"\nedition = "2021"\n\n[workspace]\n\n[dependencies]\n%s\n[profile.release]\noverflow-checks = false\ndebug-assertions = false\n' % (
        name, CRATES[name].replace('{REPO}', REPO))
    p = os.path.join(d, 'Cargo.toml')
    if not os.path.exists(p) or open(p).read() != toml:
        open(p, 'w').write(toml)
    srcdir = os.path.join(VERIF, 'tools', name, 'src')
    for f in os.listdir(srcdir):
        s = open(os.path.join(srcdir, f)).read()
        t = os.path.join(d, 'src', f)
        if not os.path.exists(t) or open(t).read() != s:
            open(t, 'w').write(s)
    lock = os.path.join(REPO, 'Cargo.lock')
    if os.path.exists(lock) and not os.path.exists(os.path.join(d, 'Cargo.lock')):
        shutil.copy(lock, os.path.join(d, 'Cargo.lock'))
    cmd = ['cargo', 'build', '--offline', '-q'] + (['--release'] if release else [])
    r = sh(cmd, cwd=d, timeout=1800)
    if r.returncode != 0:
        raise RuntimeError('native runner %s failed to build:\n%s' % (name, r.stdout[-3000:]))
    return os.path.join(d, 'target', 'release' if release else 'debug', name)


def run(name, args, release=False, timeout=120, stdin=None):
    exe = build(name, release)
    return sh([exe] + [str(a) for a in args], timeout=timeout, stdin=stdin)


EVAL_DEPS = {
    'base': 'wow_world_base = { path = "{REPO}/wow_world_base", features = ["vanilla", "tbc", "wrath", "shared", "extended"] }\n',
    'world': 'wow_world_base = { path = "{REPO}/wow_world_base", features = ["vanilla", "tbc", "wrath", "shared", "extended"] }\nwow_world_messages = { path = "{REPO}/wow_world_messages", default-features = false, features = ["vanilla", "tbc", "wrath", "sync", "encryption"] }\n',
    'login': 'wow_login_messages = { path = "{REPO}/wow_login_messages", default-features = false, features = ["sync"] }\n',
}


def eval_cases(dep_key, cases, prelude='', timeout=600):
    """cases: list of (case_id, rust_block) where rust_block is an expression of type String evaluated inside
    catch_unwind. Builds one program against the repo's current tree, runs it in dev and release profile.
    Returns {case_id: (dev_output, release_output)}; output 'PANIC: <msg>' when the block panicked."""
    name = 'eval_' + dep_key
    d = os.path.join(WORK, 'native', name)
    os.makedirs(os.path.join(d, 'src'), exist_ok=True)
    toml = '[package]\nname = "%s"\nversion = "0.0.0"\nedition = "2021"\n\n[workspace]\n\n[dependencies]\n%s\n[profile.release]\noverflow-checks = false\ndebug-assertions = false\n' % (
        name, EVAL_DEPS[dep_key].replace('{REPO}', REPO))
    p = os.path.join(d, 'Cargo.toml')
    if not os.path.exists(p) or open(p).read() != toml:
        open(p, 'w').write(toml)
    body = ['#![allow(unused, non_snake_case, unused_mut, clippy::all)]', prelude, 'fn main() {',
            '    std::panic::set_hook(Box::new(|_| {}));']
    for i, (cid, block) in enumerate(cases):
        body.append('    { let r = std::panic::catch_unwind(|| -> String { %s });' % block)
        body.append('      match r { Ok(s) => println!("CASE %d {}", s), Err(e) => { let m = if let Some(s) = e.downcast_ref::<String>() { s.clone() } else if let Some(s) = e.downcast_ref::<&str>() { s.to_string() } else { String::new() }; println!("CASE %d PANIC: {}", m.replace("\n", " ")) } } }' % (i, i))
    body.append('}')
    open(os.path.join(d, 'src', 'main.rs'), 'w').write('\n'.join(body) + '\n')
    lock = os.path.join(REPO, 'Cargo.lock')
    if os.path.exists(lock) and not os.path.exists(os.path.join(d, 'Cargo.lock')):
        shutil.copy(lock, os.path.join(d, 'Cargo.lock'))
    outs = []
    for rel in (False, True):
        cmd = ['cargo', 'build', '--offline', '-q'] + (['--release'] if rel else [])
        r = sh(cmd, cwd=d, timeout=3600)
        if r.returncode != 0:
            raise RuntimeError('replay program failed to build:\n%s' % r.stdout[-4000:])
        exe = os.path.join(d, 'target', 'release' if rel else 'debug', name)
        r = sh([exe], timeout=timeout)
        res = {}
        for line in (r.stdout or '').splitlines():
            if line.startswith('CASE '):
                parts = line.split(' ', 2)
                res[int(parts[1])] = parts[2] if len(parts) > 2 else ''
        outs.append(res)
    return {cid: (outs[0].get(i), outs[1].get(i)) for i, (cid, _) in enumerate(cases)}
