"""Native replay runners: small Rust binaries built from the repo's current tree (dev and release)."""
import os
import shutil
from .common import VERIF, REPO, WORK, sh

CRATES = {
    'replay_base': 'wow_world_base = { path = "{REPO}/wow_world_base", features = ["vanilla", "tbc", "wrath", "shared", "extended"] }\n',
}


def build(name, release=False):
    d = os.path.join(WORK, 'native', name)
    os.makedirs(os.path.join(d, 'src'), exist_ok=True)
    toml = '[package]\nname = "%s"\nversion = "0.0.0"\nedition = "2021"\n\n[workspace]\n\n[dependencies]\n%s\n[profile.release]\noverflow-checks = false\ndebug-assertions = false\n' % (
        name, CRATES[name].replace('{REPO}', REPO))
    p = os.path.join(d, 'Cargo.toml')
    if not os.path.exists(p) or open(p).read() != toml:
        open(p, 'w').write(toml)
    srcdir = os.path.join(VERIF, 'tools', name, 'src')
    for f in os.listdir(srcdir):
        s = open(os.path.join(srcdir, f)).read()
        t = os.path.join(d, 'src', f)
        if not os.path.exists(t) or open(t).read() != s:
            open(t, 'w').write(s)
    lock = os.path.join(REPO, 'Cargo.lock')
    if os.path.exists(lock) and not os.path.exists(os.path.join(d, 'Cargo.lock')):
        shutil.copy(lock, os.path.join(d, 'Cargo.lock'))
    cmd = ['cargo', 'build', '--offline', '-q'] + (['--release'] if release else [])
    r = sh(cmd, cwd=d, timeout=1800)
    if r.returncode != 0:
        raise RuntimeError('native runner %s failed to build:\n%s' % (name, r.stdout[-3000:]))
    return os.path.join(d, 'target', 'release' if release else 'debug', name)


def run(name, args, release=False, timeout=120, stdin=None):
    exe = build(name, release)
    return sh([exe] + [str(a) for a in args], timeout=timeout, stdin=stdin)
