"""Run Kani harness crates generated under work/ with path dependencies on the repo's current tree."""
import os
import re
import shutil
import time
from .common import VERIF, REPO, WORK, GUARD, sh, log


def prepare(name, deps_toml, srcs, extra_toml=''):
    """Create work/kani/<name> from kani/<name>/*.rs with a Cargo.toml pointing at REPO."""
    d = os.path.join(WORK, 'kani', name)
    os.makedirs(os.path.join(d, 'src'), exist_ok=True)
    toml = '[package]\nname = "%s"\nversion = "0.0.0"\nedition = "2021"\n\n[workspace]\n\n[dependencies]\n%s\n%s\n' % (
        'vk_' + name, deps_toml.replace('{REPO}', REPO), extra_toml)
    _write_if_changed(os.path.join(d, 'Cargo.toml'), toml)
    for rel, text in srcs.items():
        _write_if_changed(os.path.join(d, 'src', rel), text)
    lock = os.path.join(REPO, 'Cargo.lock')
    if os.path.exists(lock) and not os.path.exists(os.path.join(d, 'Cargo.lock')):
        shutil.copy(lock, os.path.join(d, 'Cargo.lock'))
    return d


def _write_if_changed(p, text):
    if os.path.exists(p) and open(p).read() == text:
        return
    with open(p, 'w') as f:
        f.write(text)


RES = re.compile(r'VERIFICATION:- (SUCCESSFUL|FAILED)')


def run(crate_dir, harness, timeout=1800, extra=(), mem_gb=24, playback=True, stubbing=False):
    """Returns dict(status=success|failed|error|timeout, failed_checks=[...], values=[[bytes]...], secs, out)."""
    tgt = os.path.join(crate_dir, 'target-' + harness.replace(':', '_'))
    cmd = ['cargo', 'kani', '--harness', harness, '--exact', '--target-dir', tgt]
    if playback:
        cmd += ['-Z', 'concrete-playback', '--concrete-playback=print']
    if stubbing:
        cmd += ['-Z', 'stubbing']
    cmd += list(extra)
    t0 = time.time()
    shell = 'ulimit -v %d; exec timeout %d %s' % (mem_gb * 1024 * 1024, timeout, ' '.join("'%s'" % c for c in cmd))
    p = sh(shell, cwd=crate_dir, env={'RUSTFLAGS': '--cfg ' + GUARD})
    secs = time.time() - t0
    out = p.stdout or ''
    r = {'secs': round(secs, 1), 'out': out, 'failed_checks': [], 'values': [], 'rc': p.returncode}
    if p.returncode == 124:
        r['status'] = 'timeout'
        return r
    m = RES.search(out)
    if not m:
        r['status'] = 'error'
        return r
    if m.group(1) == 'SUCCESSFUL':
        # unwinding assertions are on by default: SUCCESSFUL includes them
        r['status'] = 'success'
        return r
    r['status'] = 'failed'
    for fm in re.finditer(r'Failed Checks: (.*)\n\s*File: "([^"]*)", line (\d+)', out):
        r['failed_checks'].append({'msg': fm.group(1), 'file': fm.group(2), 'line': int(fm.group(3))})
    if 'Status: ERROR' in out or 'out of memory' in out.lower():
        r['status'] = 'error'
    # concrete playback tests: one per failed assertion and one per satisfied cover; keep the assertion ones
    r['playbacks'] = []
    for blk in re.finditer(r"/// Check for `(\w+)`: (.*?)\n(.*?)kani::concrete_playback_run", out, re.S):
        vals = []
        for vm in re.finditer(r'^\s*vec!\[([0-9, ]*)\],?\s*$', blk.group(3), re.M):
            vals.append([int(x) for x in vm.group(1).replace(' ', '').split(',') if x])
        r['playbacks'].append({'kind': blk.group(1), 'desc': blk.group(2).strip().strip('"'), 'values': vals})
    for pb in r['playbacks']:
        if pb['kind'] != 'cover':
            r['values'] = pb['values']
            break
    return r


def cover_status(out):
    """kani::cover! results: returns list of (description, SATISFIED|UNSATISFIABLE|UNREACHABLE)."""
    res = []
    for m in re.finditer(r'Check \d+: [^\n]*\n\s*- Status: (\w+)\n\s*- Description: "cover[^"]*?: ?([^"]*)"', out):
        res.append((m.group(2), m.group(1)))
    return res
