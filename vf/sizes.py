"""True extremal encoded lengths of a container, computed from the independent wowm reading over its whole
conditional structure (C09). INF marks 'unbounded by the definition' (endless arrays, 32-bit counts): the caller caps it
with the largest body a frame can carry."""
import re
from . import wowm
from .encode import ALIASES, NotSupported

INF = float('inf')
WITNESS_COUNT = 3

FIXED = {'Bool': 1, 'Bool32': 4, 'DateTime': 4, 'f32': 4}
# documented limits (wowm_language/src/spec/lang-spec.md, types/*.md)
CSTRING_MAX = 256       # 255 characters + terminator


def builtin_range(ty, exp):
    if ty == 'CString':
        return (1, CSTRING_MAX)
    if ty == 'String':
        return (1, 256)
    if ty == 'SizedCString':
        return (5, 4 + 8000)    # implementation limit (stated as an assumption): text incl. terminator <= 8000 bytes
    if ty == 'PackedGuid':
        return (1, 9)
    if ty == 'NamedGuid':
        return (8, 8 + CSTRING_MAX)
    if ty == 'VariableItemRandomProperty':
        return (4, 8)
    if ty == 'AuraMask':
        if exp == 'vanilla':
            return (4, 4 + 2 * 32)
        return (8, 8 + (3 if exp == 'tbc' else 5) * 64)
    if ty == 'EnchantMask':
        return (2, 2 + 2 * 16)
    if ty == 'CacheMask':
        return (4, 4 + 4 * 32)
    if ty == 'UpdateMask':
        return (1, INF)
    if ty == 'MonsterMoveSplines':
        return (4, INF)
    if ty in ('AchievementDoneArray', 'AchievementInProgressArray'):
        return (4, INF)
    if ty == 'AddonArray':
        return (0, INF)
    if ty == 'InspectTalentGearMask':
        return (4, INF)
    return None


class Sizer:
    def __init__(self, corpus, view):
        self.c = corpus
        self.view = view
        self.exp = view.get('exp')
        self.memo = {}

    def type_range(self, ty, up=None):
        base = ALIASES.get(ty, ty)
        ii = wowm.int_type_info(up or base)
        if ii:
            return (ii[0], ii[0])
        if base in FIXED:
            return (FIXED[base], FIXED[base])
        if ty == 'InspectTalentGearMask':
            el = self.container(self.view['containers']['InspectTalentGear'])
            return (4, 4 + 32 * el[1])
        b = builtin_range(ty, self.exp)
        if b:
            return b
        d = self.view['definers'].get(ty)
        if d is not None:
            n = wowm.int_type_info(up or d['ty'])[0]
            return (n, n)
        cd = self.view['containers'].get(ty)
        if cd is not None:
            return self.container(cd)
        raise NotSupported('type %s' % ty)

    def container(self, c):
        k = id(c)
        if k not in self.memo:
            self.memo[k] = self.members(c['members'], {}, c)
        return self.memo[k]

    def count_max(self, m, scope):
        arr = m['arr']
        if re.fullmatch(r'\d+', arr):
            n = int(arr)
            return (n, n)
        if arr == '-':
            return (0, WITNESS_COUNT)
        t = scope.get(arr)
        if t is None:
            raise NotSupported('array length variable %s' % arr)
        ii = wowm.int_type_info(ALIASES.get(t, t))
        if ii is None:
            raise NotSupported('array length type %s' % t)
        mx = (1 << (8 * ii[0])) - 1
        # 32-bit counts: the definition gives no limit; the implementation's allocation cap is taken as given and only
        # small counts are required to be accepted (assumption listed in evidence)
        return (0, mx if mx < (1 << 24) else WITNESS_COUNT)

    def members(self, ms, scope, c):
        """(min, max) of a member list. Branches on the same variable are correlated: handled by enumerating the
        controlling variable's enumerators (enum) / tested bits (flag)."""
        # collect controlling variables of ifs at this level
        lo = hi = 0
        scope = dict(scope)
        ifs = []
        for m in ms:
            if m['k'] == 'decl':
                if m['arr'] is not None:
                    if 'compressed' in dict(m['tags']):
                        raise NotSupported('compressed array')
                    cl, ch = self.count_max(m, scope)
                    el, eh = self.type_range(m['ty'])
                    lo += cl * el
                    hi += (ch * eh) if (ch != 0 and eh != 0) else 0
                else:
                    a, b = self.type_range(m['ty'], m.get('up'))
                    lo += a
                    hi += b
                    scope[m['name']] = m['ty']
            elif m['k'] == 'optional':
                a, b = self.members(m['members'], scope, c)
                hi += b
            elif m['k'] == 'if':
                ifs.append(m)
            else:
                raise NotSupported(m['k'])
        # group ifs by controlling variable
        byvar = {}
        for m in ifs:
            var = m['branches'][0][0][0][0]
            byvar.setdefault(var, []).append(m)
        for var, lst in byvar.items():
            ty = scope.get(var)
            d = self.view['definers'].get(ty) if ty else None
            if d is None:
                raise NotSupported('if on %s of unknown type' % var)
            if d['k'] == 'enum':
                best_lo, best_hi = INF, -1
                for f in d['fields']:
                    tl = th = 0
                    for m in lst:
                        a, b = self.if_enum(m, f['name'], scope, c)
                        tl += a
                        th += b
                    best_lo = min(best_lo, tl)
                    best_hi = max(best_hi, th)
                lo += best_lo
                hi += best_hi
            else:
                # flags: each if statement (else-if chain) is decided by its own bits; chains on disjoint bits are independent.
                # Conservative exactness: all chains' minimum is 0 only if some raw value takes no branch anywhere -> value 0.
                for m in lst:
                    alts = [self.members(b[1], scope, c) for b in m['branches']]
                    els = self.members(m['els'], scope, c) if m['els'] is not None else (0, 0)
                    lo += min([a for a, _ in alts] + [els[0]])
                    hi += max([b for _, b in alts] + [els[1]])
        return (lo, hi)

    def if_enum(self, m, enumerator, scope, c):
        for conds, body in m['branches']:
            taken = False
            for (vn, op, en) in conds:
                if op == '==' and en == enumerator:
                    taken = True
                if op == '!=' and en != enumerator:
                    taken = True
            if taken:
                return self.members(body, scope, c)
        if m['els'] is not None:
            return self.members(m['els'], scope, c)
        return (0, 0)
