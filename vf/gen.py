"""Run the real generator (wow_message_parser) on a scratch copy of the repository's current working tree.
The generator writes relative to its compile-time CARGO_MANIFEST_DIR, so it is built inside the scratch copy."""
import os
import shutil
import time
from .common import REPO, WORK, sh, log

SCRATCH = '/tmp/verif-gen/repo'
TARGET = os.path.join(WORK, 'gen-target')
_lock = None


def regenerate(extra_wowm=None, remove_wowm=None):
    """returns (scratch repo path, generator output text, exit code). extra_wowm: {relative path under wowm/: text}"""
    os.makedirs(os.path.dirname(SCRATCH), exist_ok=True)
    global _lock
    if _lock is None:
        # one generator scratch at a time (the path is fixed so that cargo reuses the build); held until cleanup()
        import fcntl
        _lock = open(os.path.join(WORK, 'gen.lock'), 'w')
        fcntl.flock(_lock, fcntl.LOCK_EX)
    # copy the working tree (not .git, not target); -a keeps mtimes so cargo does not rebuild unchanged crates
    r = sh(['rsync', '-a', '--delete', '--exclude', '/target', '--exclude', '/.git', REPO + '/', SCRATCH + '/'], timeout=600)
    if r.returncode != 0:
        raise RuntimeError('rsync failed: ' + r.stdout[-500:])
    for rel in (remove_wowm or []):
        p = os.path.join(SCRATCH, 'wow_message_parser', 'wowm', rel)
        if os.path.exists(p):
            os.remove(p)
    for rel, text in (extra_wowm or {}).items():
        p = os.path.join(SCRATCH, 'wow_message_parser', 'wowm', rel)
        os.makedirs(os.path.dirname(p), exist_ok=True)
        open(p, 'w').write(text)
    t0 = time.time()
    b = sh(['cargo', 'build', '-p', 'wow_message_parser', '--release', '--offline', '-q'], cwd=SCRATCH, env={'CARGO_TARGET_DIR': TARGET}, timeout=3600)
    if b.returncode != 0:
        raise RuntimeError('generator does not build:\n' + b.stdout[-3000:])
    exe = os.path.join(TARGET, 'release', 'wow_message_parser')
    g = sh([exe], cwd=SCRATCH, timeout=1800)
    log('  generator: build %.0fs, run rc=%d' % (time.time() - t0, g.returncode))
    return SCRATCH, g.stdout or '', g.returncode


def cleanup():
    global _lock
    shutil.rmtree(os.path.dirname(SCRATCH), ignore_errors=True)
    if _lock is not None:
        _lock.close()
        _lock = None
