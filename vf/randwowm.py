"""Seeded generator of well-formed wowm programs over the language features the shipped corpus uses (C07).
Each program is one world message for 1.12 plus the enums, flags and structs it needs. Message names and opcodes are
taken from entries of the generator's opcode index that the corpus does not define (the index check is a static rule,
C16). Conservative by construction: every form emitted here has a counterpart in the shipped corpus."""
import os
import random
import re

SIMPLE = ['u8', 'u16', 'u32', 'u64', 'i32', 'f32', 'Bool', 'Guid', 'PackedGuid', 'CString', 'u32', 'u8']
ARRAY_ELEM = ['u8', 'u16', 'u32', 'u64', 'Guid', 'PackedGuid', 'CString']


def free_index_entries(repo, corpus_names):
    t = open(os.path.join(repo, 'wow_message_parser', 'src', 'parser', 'stats', 'vanilla_messages.rs')).read()
    out = []
    for m in re.finditer(r'Data::(?:new|nyi)\("((?:CMSG|SMSG)_[A-Z0-9_]+)",\s*(0x[0-9A-Fa-f]+)\)', t):
        if m.group(1) not in corpus_names:
            out.append((m.group(1), int(m.group(2), 16)))
    return out


class Gen:
    def __init__(self, rng, tag):
        self.r = rng
        self.tag = tag
        self.defs = []
        self.nf = 0
        self.nt = 0

    def fname(self, ty='x'):
        # the Wireshark printer keys its field table on the member name with digits removed and requires one type per
        # name across all messages: names carry their type and a letters-only counter
        self.nf += 1
        n = self.nf
        letters = ''
        while n:
            n, r = divmod(n - 1, 26)
            letters = chr(97 + r) + letters
        return 'vf%s_%s%s' % (re.sub(r'[^a-z]', '', ty.lower()) + re.sub(r'\D', '', ty).translate(str.maketrans('0123456789', 'opqrstuvwx')), self.tag.lower().translate(str.maketrans('0123456789', 'opqrstuvwx')), letters)

    def tname(self, kind):
        # letters only: the Wireshark printer cuts enum type names at their first digit
        self.nt += 1
        tr = str.maketrans('0123456789', 'OPQRSTUVWX')
        return 'Vf%s%s%s' % (self.tag.translate(tr), kind, ('%d' % self.nt).translate(tr))

    def enum(self, flag=False):
        base = self.r.choice(['u8', 'u16', 'u32'] if not flag else ['u8', 'u16', 'u32'])
        n = self.r.randint(3, 5)
        name = self.tname('Flag' if flag else 'Enum')
        if flag:
            bits = self.r.sample(range(0, 8), n)
            vals = [1 << b for b in sorted(bits)]
            names = ['BIT_%s' % chr(65 + i) for i in range(n)]
            lines = ['    NONE = 0x00;'] if self.r.random() < 0.5 else []
            lines += ['    %s = 0x%02X;' % (nm, v) for nm, v in zip(names, vals)]
        else:
            top = {'u8': 255, 'u16': 65535, 'u32': 2 ** 32 - 1}[base]
            vals = sorted(self.r.sample(range(0, 12), n - 1) + [self.r.choice([top, 200, 13])])
            vals = sorted(set(vals))
            names = ['VAL_%s' % chr(65 + i) for i in range(len(vals))]
            lines = ['    %s = %d;' % (nm, v) for nm, v in zip(names, vals)]
        self.defs.append('%s %s : %s {\n%s\n}\n' % ('flag' if flag else 'enum', name, base, '\n'.join(lines)))
        return name, base, names

    def struct(self):
        name = self.tname('Struct')
        ms = []
        for _ in range(self.r.randint(1, 3)):
            t_ = self.r.choice(SIMPLE)
            ms.append('    %s %s;' % (t_, self.fname(t_)))
        if self.r.random() < 0.3:
            en, _, _ = self.enum()
            ms.append('    %s %s;' % (en, self.fname(en)))
        self.defs.append('struct %s {\n%s\n}\n' % (name, '\n'.join(ms)))
        return name

    def simple(self, ind):
        t_ = self.r.choice(SIMPLE)
        return ['%s%s %s;' % (ind, t_, self.fname(t_))]

    def simple_fixed(self, ind):
        t_ = self.r.choice(['u32', 'u64', 'u16', 'Guid'])
        return ['%s%s %s;' % (ind, t_, self.fname(t_))]

    def body(self, ind, depth):
        out = []
        for _ in range(self.r.randint(1, 2)):
            out += self.item(ind, depth, inner=True)
        return out

    def item(self, ind, depth, inner=False):
        r = self.r.random()
        if r < 0.30:
            return self.simple(ind)
        if r < 0.50 and depth < 2:
            # enum with an if chain
            en, base, names = self.enum()
            var = self.fname(en)
            up = ''
            if base == 'u8' and self.r.random() < 0.3:
                up = '(u32)'
            out = ['%s%s%s %s;' % (ind, up, en, var)]
            names = list(names)
            self.r.shuffle(names)
            style = self.r.random()
            if style < 0.15:
                out.append('%sif (%s != %s) {' % (ind, var, names[0]))
                out += self.body(ind + '    ', depth + 1)
                out.append('%s}' % ind)
                return out
            if style < 0.35:
                # a fixed-size branch against an else with a string: minimum and maximum both come from the else branch
                out.append('%sif (%s == %s) {' % (ind, var, names[0]))
                out += self.simple_fixed(ind + '    ')
                out.append('%s}' % ind)
                out.append('%selse {' % ind)
                t_ = self.r.choice(['CString', 'SizedCString', 'CString'])
                out.append('%s    %s %s;' % (ind, t_, self.fname(t_)))
                out.append('%s}' % ind)
                return out
            k = self.r.randint(1, min(3, len(names) - 1))
            groups = []
            rest = names
            for _ in range(k):
                g = self.r.randint(1, 2 if len(rest) > 2 else 1)
                groups.append(rest[:g])
                rest = rest[g:]
                if not rest:
                    break
            for gi, g in enumerate(groups):
                cond = ('\n%s || ' % (ind + ' ')).join('%s == %s' % (var, x) for x in g)
                out.append('%s%sif (%s) {' % (ind, 'else ' if gi else '', cond))
                out += self.body(ind + '    ', depth + 1)
                out.append('%s}' % ind)
            if rest and self.r.random() < 0.5:
                out.append('%selse {' % ind)
                out += self.body(ind + '    ', depth + 1)
                out.append('%s}' % ind)
            return out
        if r < 0.62 and depth < 2:
            fl, base, names = self.enum(flag=True)
            var = self.fname(fl)
            out = ['%s%s %s;' % (ind, fl, var)]
            names = list(names)
            self.r.shuffle(names)
            if self.r.random() < 0.25 and len(names) >= 2:
                out.append('%sif (%s & %s) {' % (ind, var, names[0]))
                out += self.body(ind + '    ', depth + 1)
                out.append('%s}' % ind)
                out.append('%selse if (%s & %s) {' % (ind, var, names[1]))
                out += self.body(ind + '    ', depth + 1)
                out.append('%s}' % ind)
                return out
            for nm in names[:self.r.randint(1, 3)]:
                out.append('%sif (%s & %s) {' % (ind, var, nm))
                out += self.body(ind + '    ', depth + 1)
                out.append('%s}' % ind)
            return out
        if r < 0.72:
            st_ = self.struct()
            return ['%s%s %s;' % (ind, st_, self.fname(st_))]
        if r < 0.80:
            el = self.r.choice(ARRAY_ELEM + [None])
            if el is None:
                el = self.struct()
            return ['%s%s[%d] %s;' % (ind, el, self.r.randint(1, 4), self.fname(el + 'arr'))]
        if r < 0.92:
            ct_ = self.r.choice(['u8', 'u16', 'u32'])
            cnt = self.fname(ct_ + 'cnt')
            el = self.r.choice(ARRAY_ELEM + [None, None])
            if el is None:
                el = self.struct()
            return ['%s%s %s;' % (ind, ct_, cnt), '%s%s[%s] %s;' % (ind, el, cnt, self.fname(el + 'arr'))]
        if r < 0.96:
            ct_ = self.r.choice(['u8', 'u16', 'u32'])
            return ['%s%s %s = %d;' % (ind, ct_, self.fname(ct_ + 'const'), self.r.choice([0, 1, 7, 200]))]
        return ['%sSizedCString %s;' % (ind, self.fname('sizedcstring'))]

    def message(self, name, opcode):
        lines = []
        for _ in range(self.r.randint(2, 5)):
            lines += self.item('    ', 0)
        t = self.r.random()
        if t < 0.2:
            el = self.r.choice(['u8', 'u32', 'Guid', 'CString', None])
            if el is None:
                el = self.struct()
            lines.append('    %s[-] %s;' % (el, self.fname(el + 'rest')))
        elif t < 0.4:
            lines.append('    optional %s {' % self.fname('tail'))
            for _ in range(self.r.randint(1, 2)):
                lines += self.simple('        ')
            lines.append('    }')
        kind = 'cmsg' if name.startswith('CMSG') else 'smsg'
        return '%s %s = 0x%04X {\n%s\n}\n' % (kind, name, opcode, '\n'.join(lines))


def programs(repo, corpus_names, n, seed):
    """-> (wowm text, [message names])"""
    rng = random.Random(seed * 1009 + 17)
    free = free_index_entries(repo, corpus_names)
    rng.shuffle(free)
    free = free[:n]
    parts = ['#tag_all versions "1.12";\n']
    names = []
    for i, (name, op) in enumerate(free):
        g = Gen(rng, '%c%d' % (chr(65 + seed % 26), i))
        msg = g.message(name, op)
        parts += g.defs
        parts.append(msg)
        names.append(name)
    return '\n'.join(parts), names
