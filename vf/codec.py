"""Per-(message, shape) obligations shared by C01/C02/C04/C09: run the real read_inner / write_into_vec / size MIR on
the canonical encoding produced by the independent reader and compare by z3."""
import time
import z3
from .mirsym import Prog, Exec, Agg, Ref, Cell, EnumV, SymEnum, SliceRef, VecV, Unsupported, concrete, BV
from . import encode


class Finding:
    def __init__(self, kind, what, model_bytes=None, detail=None, shape=None):
        self.kind = kind          # 'reject' | 'panic' | 'bytes' | 'size' | 'length' | 'write-err'
        self.what = what
        self.bytes = model_bytes
        self.detail = detail or {}
        self.shape = shape


class CodecRunner:
    def __init__(self, dump):
        self.prog = Prog(dump)
        self.ex = Exec(self.prog)
        self.ex.max_paths = 400
        self.queries = 0
        self.solver_s = 0.0
        self.inconclusive = []

    def sat(self, conds, timeout=20000):
        self.queries += 1
        t = time.time()
        s = z3.Solver()
        s.set('timeout', timeout)
        for c in conds:
            s.add(c)
        r = s.check()
        self.solver_s += time.time() - t
        self._last_conds = list(conds)
        if r == z3.sat:
            return s.model()
        if r == z3.unknown:
            raise Unsupported('solver unknown')
        return None

    def concretize(self, model, bs):
        # DateTime validity is an uninterpreted contract symbol in the queries (C15 proves the contract). For a replayable
        # counterexample the bytes must satisfy the real calendar predicate: re-solve with the symbol defined.
        conds = getattr(self, '_last_conds', None)
        if conds:
            apps = {}
            todo = list(conds)
            seen = set()
            while todo:
                e = todo.pop()
                if e.get_id() in seen:
                    continue
                seen.add(e.get_id())
                if z3.is_app(e):
                    if e.decl().name() == 'datetime_valid':
                        apps[e.get_id()] = e
                    todo.extend(e.children())
            if apps:
                from .encode import datetime_valid
                s2 = z3.Solver()
                s2.set('timeout', 30000)
                for c in conds:
                    s2.add(c)
                for e in apps.values():
                    s2.add(e == datetime_valid(e.arg(0)))
                if s2.check() == z3.sat:
                    model = s2.model()
        out = []
        for b in bs:
            v = model.eval(b, model_completion=True)
            out.append(v.as_long())
        return out

    def result_alts(self, res):
        if isinstance(res, EnumV):
            return [(z3.BoolVal(True), res.d, res.f)]
        if isinstance(res, SymEnum):
            return res.alts
        raise Unsupported('not a Result: %r' % (res,))

    def roundtrip(self, enc, fns, kind, opcode=None, label=''):
        """returns (findings, stats). kind: 'world' | 'login'"""
        ex = self.ex
        B = enc.bytes
        cons = list(enc.cons)
        findings = []
        n = len(B)
        m0 = self.sat(cons)
        if m0 is None:
            return None, {'vacuous': True}
        ex.set_assumptions(cons)
        stats = {'paths': 0, 'len': n}
        read_key = fns['read']['key']

        def mk_read():
            lst = list(B)
            r = Ref(Cell(SliceRef(lst, 0, n)))
            if kind == 'world':
                return [r, BV(n, 32)]
            return [r]
        rpaths = ex.explore_guided(read_key, mk_read)
        for P in rpaths:
            stats['paths'] += 1
            if P.status == 'infeasible':
                continue
            if P.status == 'unsupported':
                raise Unsupported('read: ' + P.detail)
            if P.status != 'ret':
                m = self.sat(cons + P.pc)
                if m is not None:
                    findings.append(Finding('panic', 'read of a canonical encoding ends in %s %s' % (P.status, P.detail), self.concretize(m, B)))
                continue
            for c, d, f in self.result_alts(P.result):
                pc = P.pc + ([c] if not z3.is_true(c) else [])
                if d != 0:
                    m = self.sat(cons + pc)
                    if m is not None:
                        findings.append(Finding('reject', 'canonical encoding rejected: %s' % self.err_text(f[0]), self.concretize(m, B)))
                    continue
                msg = f[0]
                # all bytes consumed?  (left-over input shows up as a length mismatch of the re-encoding below)
                self.write_and_size(enc, fns, kind, msg, cons, pc, B, opcode, findings, stats)
        return findings, stats

    def err_text(self, e):
        try:
            if isinstance(e, EnumV):
                return 'error variant #%d %r' % (e.d, e.f)
            return repr(e)[:200]
        except Exception:
            return '?'

    def write_and_size(self, enc, fns, kind, msg, cons, pc, B, opcode, findings, stats):
        ex = self.ex
        n = len(B)
        holder = {}

        def mk_write():
            v = VecV([])
            holder['v'] = v
            return [Ref(Cell(msg)), Ref(Cell(v))]
        def keep(Pw):
            Pw.env['out'] = holder.get('v')
        wpaths = ex.explore_guided(fns['write']['key'], mk_write, pc0=pc, on_path=keep)
        for W in wpaths:
            stats['paths'] += 1
            if W.status == 'infeasible':
                continue
            if W.status == 'unsupported':
                raise Unsupported('write: ' + W.detail)
            if W.status != 'ret':
                m = self.sat(cons + W.pc)
                if m is not None:
                    findings.append(Finding('panic', 'write of the decoded value ends in %s %s' % (W.status, W.detail), self.concretize(m, B)))
                continue
            for c, d, f in self.result_alts(W.result):
                wpc = W.pc + ([c] if not z3.is_true(c) else [])
                if d != 0:
                    m = self.sat(cons + wpc)
                    if m is not None:
                        findings.append(Finding('write-err', 'write of the decoded value returns Err', self.concretize(m, B)))
                    continue
                out = W.env['out'].lst
                exp = B
                if kind == 'login':
                    exp = [BV(opcode, 8)] + list(B)
                if len(out) != len(exp):
                    m = self.sat(cons + wpc)
                    if m is not None:
                        findings.append(Finding('length', 're-encoding has %d bytes, canonical encoding has %d' % (len(out), len(exp)), self.concretize(m, B),
                                                {'written': self.concretize(m, out)}))
                    continue
                diffs = [o != e for o, e in zip(out, exp) if not (o is e)]
                diffs = [z3.simplify(dd) for dd in diffs]
                diffs = [dd for dd in diffs if not z3.is_false(dd)]
                if diffs:
                    m = self.sat(cons + wpc + [z3.Or(*diffs)])
                    if m is not None:
                        wr = self.concretize(m, out)
                        ex_b = self.concretize(m, exp)
                        idx = next(i for i in range(len(wr)) if wr[i] != ex_b[i])
                        findings.append(Finding('bytes', 're-encoding differs at byte %d (field %s): wrote %#04x, canonical %#04x' % (idx, field_at(enc, idx - (1 if kind == 'login' else 0)), wr[idx], ex_b[idx]),
                                                self.concretize(m, B), {'written': wr}))
        # declared size
        if 'size' in fns:
            spaths = ex.explore_guided(fns['size']['key'], lambda: [Ref(Cell(msg))], pc0=pc)
            for S in spaths:
                stats['paths'] += 1
                if S.status == 'infeasible':
                    continue
                if S.status == 'unsupported':
                    raise Unsupported('size: ' + S.detail)
                if S.status != 'ret':
                    m = self.sat(cons + S.pc)
                    if m is not None:
                        findings.append(Finding('panic', 'size() ends in %s %s' % (S.status, S.detail), self.concretize(m, B)))
                    continue
                sz = S.result
                want = n
                if not z3.is_expr(sz):
                    raise Unsupported('size result %r' % (sz,))
                m = self.sat(cons + S.pc + [sz != BV(want, sz.size())])
                if m is not None:
                    findings.append(Finding('size', 'declared size %s, canonical encoding has %d bytes' % (m.eval(sz, model_completion=True), want), self.concretize(m, B)))


def field_at(enc, idx):
    best = None
    for p, ty, a, b, term in enc.fields:
        if a <= idx < b:
            if best is None or (b - a) < (best[2] - best[1]):
                best = (p, a, b)
    return best[0] if best else '?'
