"""Locate the codec functions (read_inner / write_into_vec / size) of every wowm message in a MIR dump."""
import os
import re
from . import mirdump, wowm
from .mirsym import Prog
from .inventory import Inventory

TEMPLATES = 'pub fn __templates(a: &mut Vec<u8>, b: &mut &[u8]) {}\n'


def world_targets(corpus, exps=('vanilla', 'tbc', 'wrath')):
    out = []
    for exp in exps:
        v = corpus.world_view(exp)
        for name, c in sorted(v['containers'].items()):
            if c['k'] == 'struct' or corpus.is_test_object(c):
                continue
            out.append((v, c, 'wow_world_messages::%s::%s' % (exp, name)))
    return out


def login_targets(corpus):
    out = []
    for ver in wowm.LOGIN_ALL:
        v = corpus.login_view(ver)
        for name, c in sorted(v['containers'].items()):
            if c['k'] == 'struct' or corpus.is_test_object(c):
                continue
            lv = corpus.tag(c, 'login_versions').split()
            mod = 'all' if '*' in lv else 'version_%d' % ver
            out.append((v, c, 'wow_login_messages::%s::%s' % (mod, name)))
    return out


def build(kind, corpus, extra_items=None, extra_roots=None, name=None):
    """returns (prog, inv, [(view, container, path, ty|None)], dropped)"""
    if kind == 'world':
        targets = world_targets(corpus)
        deps = ['wow_world_messages', 'wow_world_base']
        dep_roots = [
            {'crate': 'wow_world_messages', 'pats': ['*::read_inner'], 'targs': []},
            {'crate': 'wow_world_messages', 'pats': ['<* as *Message>::write_into_vec'], 'targs': [0]},
            {'crate': 'wow_world_messages', 'pats': ['<* as *Message>::size_without_header'], 'targs': []},
        ]
    else:
        targets = login_targets(corpus)
        deps = ['wow_login_messages']
        dep_roots = [
            {'crate': 'wow_login_messages', 'pats': ['*::read_inner'], 'targs': [1]},
            {'crate': 'wow_login_messages', 'pats': ['*::write_into_vec'], 'targs': [0]},
            {'crate': 'wow_login_messages', 'pats': ['*::size'], 'targs': []},
        ]
    if extra_roots:
        dep_roots = dep_roots + extra_roots
    items = {}
    for v, c, path in targets:
        if 'ty|' + path not in items:
            items['ty|' + path] = 'pub fn t_%d(_x: &%s) {}' % (len(items), path)
    if extra_items:
        items.update(extra_items)
    out, dropped = mirdump.dump_items(name or ('messages_' + kind), deps, items, dep_roots, extra_rs=TEMPLATES)
    prog = Prog(out)
    inv = Inventory(prog)
    lib = open(os.path.join(os.path.dirname(out), 'src', 'lib.rs')).read().splitlines()
    item_fn = {}
    for line in lib:
        m = re.search(r'pub fn (\w+)\(.*/\*ITEM:(.*?)\*/', line)
        if m:
            item_fn[m.group(2)] = m.group(1)
    res = []
    for v, c, path in targets:
        fn = item_fn.get('ty|' + path)
        ty = None
        if fn:
            t = inv.type_of_local_arg(fn, 0)
            if t is not None:
                ty = prog.tk(t)['Ref'][1]
        res.append((v, c, path, ty))
    return prog, inv, res, dropped


def codec_fns(inv, ty, kind):
    """{'read': root, 'write': root, 'size': root} for a message type"""
    ms = inv.by_type.get(str(ty), {})
    out = {}
    for (tr, mn), r in ms.items():
        if mn == 'read_inner' and tr is None:
            out['read'] = r
        elif mn == 'write_into_vec' and (kind == 'login' and tr is None or kind == 'world' and tr is not None):
            out['write'] = r
        elif kind == 'world' and mn == 'size_without_header':
            out['size'] = r
        elif kind == 'login' and mn == 'size' and tr is None:
            out['size'] = r
    return out
